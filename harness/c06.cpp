// C06: parallel_reduce / parallel_deterministic_reduce / parallel_scan / parallel_sort equal the sequential result
// for any input and any schedule.
//
// Scenario classes (kept apart in the violation keys c06.<class>.<what>):
//   R  parallel_reduce, functional and Body forms, 5 partitioner choices. The reduction is done in the FREE MONOID over
//      element ids (a sequence kept in canonical run-length form), so any reordering / duplication / loss of operands
//      changes the value; Body objects carry ids: join(b) must be into the body b was split from, with neither body
//      running and b never used again.
//   D  parallel_deterministic_reduce: same free-monoid oracle, plus a FREE MAGMA value (hash of the whole split/join
//      expression tree) and a float sum; both must be bit-identical between runs in arenas of different concurrency,
//      hot and cold, under different delays (simple_partitioner: also equal to the range-recursion computed here;
//      static_partitioner: compared only between arenas of equal concurrency).
//   S  parallel_scan, functional and Body forms: final pass exactly once per element, incoming prefix of every final
//      chunk is exactly the sequential prefix (free monoid + polynomial string hash, both non-commutative),
//      out[i] equals the sequential inclusive scan, returned total is the full reduction.
//   Q  parallel_sort: output sorted under the comparator and a permutation of the input ((key, original index, check
//      word) triples), guard elements around the sorted sub-range untouched; input classes sorted / reverse / equal /
//      few keys / one inversion at any position / sizes around the 500 cut-off / coarse strict weak orders.
//      --mode sortinv enumerates EVERY (size 496..524, inversion position) pair.
// No exceptions are injected here (that is C03).
#define VRT_IMPL
#include "vrt_tbb.h"
#include <oneapi/tbb.h>
#include <deque>
#include <memory>
#include <type_traits>

using namespace vrt;

static const std::memory_order RLX = std::memory_order_relaxed;
static bool g_light = false;          // tsan: (nothing here takes locks or global stamps on the hot paths anyway)
static bool g_big = false;            // thorough: larger sizes
static float g_data[65536];

// ------------------------------------------------------------------------------------------------ free monoid
// A sequence of integers in canonical form: maximal runs [b,e) of consecutive values. Appending is O(1) when the
// operand continues the last run; any disorder, duplicate or gap shows up as an extra run.
struct Runs {
    std::vector<std::pair<long long, long long>> v;
    void add(long long b, long long e) { if (b >= e) return; if (!v.empty() && v.back().second == b) v.back().second = e; else v.emplace_back(b, e); }
    void add(const Runs& o) { for (auto& p : o.v) add(p.first, p.second); }
    bool is(long long b, long long e) const { return b >= e ? v.empty() : (v.size() == 1 && v[0].first == b && v[0].second == e); }
    std::string str() const {
        std::string s = "[";
        for (size_t i = 0; i < v.size() && i < 14; i++) s += (i ? "," : "") + std::to_string(v[i].first) + ".." + std::to_string(v[i].second);
        if (v.size() > 14) s += ",...(" + std::to_string(v.size()) + " runs)";
        return s + "]";
    }
};

// value of the reductions: free monoid (runs), free magma (tree: hash of the expression tree), float sum
struct Val { Runs runs; uint64_t tree = 0; float f = 0.f; };
static inline float bounds_float(long long b, long long e) { return (float)(mix((uint64_t)b, (uint64_t)e) % 100003) / 7.0f * ((b % 3) ? 1.f : -1e-3f); }
static inline void leaf_apply(Val& a, long long b, long long e, const float* data, long long base) {
    a.runs.add(b, e);
    a.tree = mix(mix(a.tree, 0x1eaf), mix((uint64_t)b, (uint64_t)e));
    if (data) { float f = a.f; for (long long i = b; i < e; ++i) f += data[(i - base) & 0xFFFF]; a.f = f; }
    else a.f += bounds_float(b, e);
}
static inline void join_apply(Val& x, const Val& y) { x.runs.add(y.runs); x.tree = mix(mix(x.tree, 0x501d), y.tree); x.f = x.f + y.f; }
static inline uint32_t fbits(float f) { uint32_t u; memcpy(&u, &f, 4); return u; }

// value of the scans: free monoid + polynomial string hash (h, B^len), both non-commutative
struct SVal { Runs runs; uint64_t h = 0, pw = 1; };
static const uint64_t kB = 0x100000001B3ull;
static inline SVal scombine(const SVal& l, const SVal& r) { SVal o; o.runs = l.runs; o.runs.add(r.runs); o.h = l.h * r.pw + r.h; o.pw = l.pw * r.pw; return o; }

// ------------------------------------------------------------------------------------------------ observation of one call
struct Obs {
    char cls = 'R';
    std::atomic<int> first{-1}; std::atomic<bool> multi{false}; std::atomic<uint64_t> mask{0};
    struct Ch { long long b, e; int kind, thr; };
    static constexpr int CAP = 320;
    std::atomic<int> nlog{0}; Ch log[CAP];
    std::atomic<long> leaves{0}, splits{0}, joins{0}, pre{0}, fin{0};
    std::atomic<int> next_id{1};
    std::atomic<int> fails{0}; std::mutex fm; std::string fkey, fwhat;
    unsigned work = 0, work_p = 0;       // body delay: with probability work_p/8 spin up to `work` iterations
    unsigned head = 0; std::atomic<bool> head_done{false};   // the first chunk executed stalls this long: thieves arrive while the call is young

    int touch() {
        int t = thread_ordinal();
        int f = first.load(RLX);
        if (f == t) return t;
        if (f < 0) { int ex = -1; if (first.compare_exchange_strong(ex, t, RLX) || ex == t) { mask.fetch_or(1ull << (t & 63), RLX); return t; } }
        if (!((mask.load(RLX) >> (t & 63)) & 1)) mask.fetch_or(1ull << (t & 63), RLX);
        if (!multi.load(RLX)) multi.store(true, RLX);
        return t;
    }
    void chunk(long long b, long long e, int kind, int thr) { int k = nlog.fetch_add(1, RLX); if (k < CAP) log[k] = Ch{ b, e, kind, thr }; if ((k & 63) == 63) progress(); }
    unsigned nest = 0;                   // with probability nest/16 a chunk runs a small nested parallel_for: the thread waits inside the body and may
                                         // pick up the sibling (right) task of the very call it is in the middle of
    void spin() {
        if (head && !head_done.load(RLX) && !head_done.exchange(true, RLX)) spin_iters(head);
        uint32_t x = (work || nest) ? trng().u32() : 0;
        if (work && (x & 7) < work_p) spin_iters((x >> 8) % work);
        if (nest && ((x >> 4) & 15) < nest) {
            // static_partitioner mails the nested tasks to other slots: idle workers serve their mailbox before they steal, so this
            // thread ends up waiting for them with the outer call's own spawned siblings still in its deque - and runs those, unstolen,
            // in the middle of this body (with plain spawning thieves always take the older outer tasks first)
            if (x & 0x1000) tbb::parallel_for(0, 4, [](int) { spin_iters(1200); }, tbb::static_partitioner());
            else tbb::parallel_for(0, 3, [](int) { spin_iters(150); }, tbb::simple_partitioner());
        }
    }
    void fail(const char* what_key, const std::string& what) {
        if (fails.fetch_add(1) == 0) { std::lock_guard<std::mutex> l(fm); fkey = std::string("c06.") + cls + "." + what_key; fwhat = what; }
    }
    int threads() const { return __builtin_popcountll(mask.load(RLX)); }
    int logged() const { return std::min(nlog.load(RLX), (int)CAP); }
    // chunk list sorted by begin; thread ids normalised in order of appearance
    uint64_t chunk_signature(bool with_threads) {
        int n = logged(); std::sort(log, log + n, [](const Ch& a, const Ch& b) { return a.b != b.b ? a.b < b.b : (a.kind != b.kind ? a.kind < b.kind : a.e < b.e); });
        uint64_t h = 0x5151; std::map<int, int> norm;
        for (int i = 0; i < n; i++) { h = mix(h, mix((uint64_t)log[i].b, (uint64_t)log[i].e * 4 + log[i].kind)); if (with_threads) { auto it = norm.find(log[i].thr); if (it == norm.end()) it = norm.emplace(log[i].thr, (int)norm.size()).first; h = mix(h, it->second); } }
        return mix(h, nlog.load(RLX));
    }
    void chunks_json(Json& j, int cap = 24) {
        int n = logged(); std::map<int, int> norm;
        j.arr(); for (int i = 0; i < n && i < cap; i++) { auto it = norm.find(log[i].thr); if (it == norm.end()) it = norm.emplace(log[i].thr, (int)norm.size()).first; j.arr(); j.val(log[i].b); j.val(log[i].e); j.val(log[i].kind); j.val(it->second); j.end_arr(); } j.end_arr();
    }
};

// ------------------------------------------------------------------------------------------------ reduce bodies
template <class Idx>
struct RBody {
    Obs* o; int id, parent; Val v; std::atomic<int> active{0}; bool gone = false; const float* data; long long base;
    RBody(Obs* o_, const float* d, long long base_) : o(o_), id(0), parent(-1), data(d), base(base_) {}
    // may run concurrently with operator() / join of `s`: only immutable fields of s are read
    RBody(RBody& s, tbb::split) : o(s.o), id(s.o->next_id.fetch_add(1, RLX)), parent(s.id), data(s.data), base(s.base) { o->splits.fetch_add(1, RLX); }
    RBody(const RBody&) = delete;
    void operator()(const tbb::blocked_range<Idx>& r) {
        if (active.fetch_add(1, RLX) != 0) o->fail("body-used-concurrently", "operator() entered on body " + std::to_string(id) + " while it was already in use");
        if (gone) o->fail("body-used-after-join", "operator() on body " + std::to_string(id) + " after it had been joined into its splitter");
        int t = o->touch(); o->leaves.fetch_add(1, RLX); o->chunk((long long)r.begin(), (long long)r.end(), 0, t);
        leaf_apply(v, (long long)r.begin(), (long long)r.end(), data, base);
        o->spin();
        active.fetch_sub(1, RLX);
    }
    void join(RBody& rhs) {
        o->joins.fetch_add(1, RLX);
        if (rhs.parent != id) o->fail("join-not-into-splitter", "body " + std::to_string(rhs.id) + " (split from " + std::to_string(rhs.parent) + ") joined into body " + std::to_string(id));
        if (active.fetch_add(1, RLX) != 0 || rhs.active.fetch_add(1, RLX) != 0)
            o->fail("join-before-finished", "join(" + std::to_string(id) + "," + std::to_string(rhs.id) + ") while one of the two bodies was still running");
        if (gone || rhs.gone) o->fail("body-used-after-join", "join(" + std::to_string(id) + "," + std::to_string(rhs.id) + ") involves a body that was already joined away");
        rhs.gone = true;
        join_apply(v, rhs.v);
        rhs.active.fetch_sub(1, RLX); active.fetch_sub(1, RLX);
    }
};

struct DefaultTag {};
struct PartPool {            // affinity partitioners are re-used across calls but never by two calls at once
    tbb::affinity_partitioner ap[6]; std::atomic<bool> busy[6];
    PartPool() { for (auto& b : busy) b.store(false); }
    int acquire(Rng& r) { int k = (int)r.below(6); for (int i = 0; i < 6; i++) { int j = (k + i) % 6; bool e = false; if (busy[j].compare_exchange_strong(e, true)) return j; } return -1; }
    void release(int j) { busy[j].store(false); }
};
static const char* part_name[] = { "simple", "auto", "static", "affinity", "default" };
template <class F> static void with_part(int part, PartPool& pool, Rng& r, F&& f) {
    switch (part) {
    case 0: f(tbb::simple_partitioner()); break;
    case 1: f(tbb::auto_partitioner()); break;
    case 2: f(tbb::static_partitioner()); break;
    case 3: { int s = pool.acquire(r); if (s >= 0) { f(pool.ap[s]); pool.release(s); } else f(tbb::auto_partitioner()); break; }
    default: f(DefaultTag{}); break;
    }
}
template <class P> constexpr bool is_default_v = std::is_same<std::decay_t<P>, DefaultTag>::value;

// one reduce call (must be called inside the arena). det: parallel_deterministic_reduce (part in {0,2,4})
template <class Idx>
static Val do_reduce(Obs& o, bool det, bool body_form, int part, PartPool& pool, Rng& r, Idx b, Idx e, size_t g, const float* data) {
    using Rg = tbb::blocked_range<Idx>;
    Rg range(b, e, g);
    long long base = (long long)b;
    Val out;
    if (body_form) {
        RBody<Idx> body(&o, data, base);
        if (det) {
            switch (part) {
            case 0: tbb::parallel_deterministic_reduce(range, body, tbb::simple_partitioner()); break;
            case 2: tbb::parallel_deterministic_reduce(range, body, tbb::static_partitioner()); break;
            default: tbb::parallel_deterministic_reduce(range, body); break;
            }
        } else {
            with_part(part, pool, r, [&](auto&& p) {
                if constexpr (is_default_v<decltype(p)>) tbb::parallel_reduce(range, body); else tbb::parallel_reduce(range, body, p);
            });
        }
        if (body.active.load(RLX) != 0) o.fail("join-before-finished", "root body still marked running after the call returned");
        out = std::move(body.v);
    } else {
        auto leaf = [&o, data, base](const Rg& rg, Val acc) -> Val {
            int t = o.touch(); o.leaves.fetch_add(1, RLX); o.chunk((long long)rg.begin(), (long long)rg.end(), 0, t);
            leaf_apply(acc, (long long)rg.begin(), (long long)rg.end(), data, base); o.spin(); return acc;
        };
        auto join = [&o](Val x, const Val& y) -> Val { o.joins.fetch_add(1, RLX); join_apply(x, y); return x; };
        if (det) {
            switch (part) {
            case 0: out = tbb::parallel_deterministic_reduce(range, Val(), leaf, join, tbb::simple_partitioner()); break;
            case 2: out = tbb::parallel_deterministic_reduce(range, Val(), leaf, join, tbb::static_partitioner()); break;
            default: out = tbb::parallel_deterministic_reduce(range, Val(), leaf, join); break;
            }
        } else {
            with_part(part, pool, r, [&](auto&& p) {
                if constexpr (is_default_v<decltype(p)>) out = tbb::parallel_reduce(range, Val(), leaf, join); else out = tbb::parallel_reduce(range, Val(), leaf, join, p);
            });
        }
    }
    return out;
}

// what the specification of parallel_deterministic_reduce + simple_partitioner describes: split while divisible,
// new body (identity) for every right half, join left <- right
static Val ref_tree(long long b, long long e, size_t g, const float* data, long long base) {
    if ((unsigned long long)(e - b) > g) { long long m = b + (long long)((unsigned long long)(e - b) / 2u); Val l = ref_tree(b, m, g, data, base); Val r = ref_tree(m, e, g, data, base); join_apply(l, r); return l; }
    Val a; leaf_apply(a, b, e, data, base); return a;
}

// ------------------------------------------------------------------------------------------------ scan body (imperative form)
struct SBody {
    Obs* o; SVal sum; std::atomic<int> active{0};
    const int* in; uint64_t* out; std::atomic<unsigned char>* fin; const uint64_t* refp; long long base;
    SBody(Obs* o_, const int* in_, uint64_t* out_, std::atomic<unsigned char>* fin_, const uint64_t* refp_, long long base_) : o(o_), in(in_), out(out_), fin(fin_), refp(refp_), base(base_) {}
    SBody(SBody& s, tbb::split) : o(s.o), in(s.in), out(s.out), fin(s.fin), refp(s.refp), base(s.base) { o->splits.fetch_add(1, RLX); }
    SBody(const SBody&) = delete;
    template <class Tag> void operator()(const tbb::blocked_range<int>& r, Tag) {
        if (active.fetch_add(1, RLX) != 0) o->fail("body-used-concurrently", "scan body entered while already in use");
        sum = scan_chunk(*o, r, sum, Tag::is_final_scan(), in, out, fin, refp, base);
        active.fetch_sub(1, RLX);
    }
    void reverse_join(SBody& a) { o->joins.fetch_add(1, RLX); if (active.load(RLX) || a.active.load(RLX)) o->fail("body-used-concurrently", "reverse_join while one of the bodies was running"); sum = scombine(a.sum, sum); }
    void assign(SBody& b) { sum = b.sum; }
    static SVal scan_chunk(Obs& o, const tbb::blocked_range<int>& r, const SVal& s, bool final, const int* in, uint64_t* out, std::atomic<unsigned char>* fin,
                           const uint64_t* refp, long long base) {
        int t = o.touch(); o.chunk(r.begin(), r.end(), final ? 1 : 0, t);
        long long b = r.begin(), e = r.end();
        if (final) {
            o.fin.fetch_add(1, RLX);
            uint64_t want_h = b > base ? refp[b - base - 1] : 0;
            if (!s.runs.is(base, b) || s.h != want_h)
                o.fail("final-prefix-wrong", "final pass over [" + std::to_string(b) + "," + std::to_string(e) + ") got incoming prefix " + s.runs.str() + " (hash " + hex64(s.h) + "), expected exactly [" +
                       std::to_string(base) + ".." + std::to_string(b) + "] (hash " + hex64(want_h) + ")");
        } else o.pre.fetch_add(1, RLX);
        SVal a = s;
        a.runs.add(b, e);
        uint64_t h = a.h, pw = a.pw;
        for (long long i = b; i < e; ++i) {
            h = h * kB + (uint64_t)in[i - base]; pw *= kB;
            if (final) { out[i - base] = h; fin[i - base].fetch_add(1, RLX); }
        }
        a.h = h; a.pw = pw;
        o.spin();
        return a;
    }
};

// ------------------------------------------------------------------------------------------------ sort elements
struct KV {
    int k, idx; unsigned chk;
    bool operator<(const KV& o) const { return k < o.k || (k == o.k && idx < o.idx); }
};
static inline unsigned kv_chk(int k, int idx) { return (unsigned)k * 2654435761u ^ (unsigned)idx * 40503u ^ 0xC06C06u; }
static inline int fdiv8(int k) { return k >= 0 ? k / 8 : -((-(long long)k + 7) / 8); }
struct Cmp {
    Obs* o; int kind;     // 0 less, 1 greater, 2 coarse (key/8: strict weak, many equivalent keys), 3 total (key, index)
    bool operator()(const KV& a, const KV& b) const {
        if (o) { o->touch(); static thread_local unsigned calls = 0; if ((++calls & 0xFFFF) == 0) progress(); }   // a long sort is not a stall
        switch (kind) { case 0: return a.k < b.k; case 1: return a.k > b.k; case 2: return fdiv8(a.k) < fdiv8(b.k); default: return a < b; }
    }
};
static const char* cmp_name[] = { "less", "greater", "coarse(key/8)", "total(key,idx)", "operator<" };
struct HS { std::string s; int idx; };

enum SortClass { SC_SORTED, SC_REVERSE, SC_EQUAL, SC_FEW, SC_RANDOM, SC_INVERSION, SC_EQRUNS, SC_ORGAN, SC_SAW, SC_FARSWAP, SC_PREFIX, SC_EQRUNS_INV, SC_ROTATED, SC_COUNT };
static const char* sc_name[] = { "sorted", "reverse", "all-equal", "few-keys", "random", "one-inversion", "equal-runs", "organ-pipe", "sawtooth", "far-swap", "sorted-prefix-then-random",
                                 "equal-runs-one-inversion", "rotated-by-one" };

// keys "sorted" means sorted under the comparator that will be used (keys are negated for `greater`)
static std::vector<int> sort_keys(int cls, int n, long pos, int cmpkind, Rng& r) {
    std::vector<int> k(n);
    for (int i = 0; i < n; i++) k[i] = 8 * i;
    switch (cls) {
    case SC_SORTED: break;
    case SC_REVERSE: std::reverse(k.begin(), k.end()); break;
    case SC_EQUAL: for (auto& x : k) x = 5; break;
    case SC_FEW: for (auto& x : k) x = (int)r.below(7) * 8; break;
    case SC_RANDOM: for (auto& x : k) x = (int)r.below(1000000) - 500000; break;
    case SC_INVERSION: if (n >= 2) std::swap(k[pos], k[pos + 1]); break;
    case SC_EQRUNS: for (int i = 0; i < n; i++) k[i] = (i / 8) * 8; break;
    case SC_ORGAN: for (int i = 0; i < n; i++) k[i] = 8 * std::min(i, n - 1 - i); break;
    case SC_SAW: for (int i = 0; i < n; i++) k[i] = 8 * (i % 17); break;
    case SC_FARSWAP: if (n >= 2) { int a = (int)r.below(n), b = (int)r.below(n); std::swap(k[a], k[b]); } break;
    case SC_PREFIX: for (int i = 12; i < n; i++) k[i] = 8 * (12 + (int)r.below(n)); break;
    case SC_EQRUNS_INV: for (int i = 0; i < n; i++) k[i] = (i / 8) * 8; if (n >= 2) std::swap(k[pos], k[pos + 1]); break;
    case SC_ROTATED: if (n >= 2) { for (int i = 0; i + 1 < n; i++) k[i] = 8 * (i + 1); k[n - 1] = 0; } break;
    }
    if (cmpkind == 1) for (auto& x : k) x = -x;
    return k;
}

// ------------------------------------------------------------------------------------------------ per-driver context
struct Tally {
    std::map<std::string, long long> c;
    void add(const char* k, long long d = 1) { c[k] += d; }
    void flush(Result& R) { for (auto& kv : c) { if (kv.first.rfind("max_", 0) == 0) R.stat_max(kv.first, kv.second); else R.stat(kv.first, kv.second); } c.clear(); }
    void mx(const char* k, long long v) { auto& r = c[k]; if (v > r) r = v; }
};
struct Ctx {
    tbb::task_arena *A, *B, *A2; int conc, conc_b; PartPool* pool; int driver; bool perturb_owner; Tally tally;
    std::vector<int> ids;
};
// One perturbation setting is shared by all drivers of a batch; a simple_partitioner call passes the hooks once per leaf
// (thousands of times), so the per-hit delay probability is capped to keep such calls from taking seconds.
static void new_perturbation(Ctx& c, Rng& r) {
    if (!c.perturb_owner) return;
    perturb_random(r, c.ids);
    for (auto& p : perturb().prob) if (p.load(RLX) > 8000) p.store(8000, RLX);
}

static void set_work(Obs& o, Rng& r) {
    // without some work per chunk a short call is over before a thief arrives and nothing is split by stealing
    unsigned k = (unsigned)r.below(20);
    if (k < 3) { o.work = 0; }
    else if (k < 9) { o.work = 1500; o.work_p = 8; }
    else if (k < 14) { o.work = 5000; o.work_p = 3; }
    else if (k < 18) { o.work = 600; o.work_p = 2; }
    else { o.work = 40000; o.work_p = 1; }
    o.head = r.chance(3, 5) ? 3000 + (unsigned)r.below(40000) : 0;
    o.nest = r.chance(1, 4) ? 1 + (unsigned)r.below(6) : 0;
}

static long long pick_n(Rng& r, bool need_arrays) {
    unsigned k = (unsigned)r.below(100);
    if (k < 8) return (long long)r.below(4);                         // 0..3
    if (k < 45) return 2 + (long long)r.below(63);
    if (k < 60) { long long p = 1ll << (1 + r.below(12)); return std::max<long long>(0, p + r.range(-1, 1)); }
    if (k < 90) return 65 + (long long)r.below(2000);
    if (k < 98 || need_arrays) return 2000 + (long long)r.below(g_big ? 400000 : 40000);
    return 2000 + (long long)r.below(g_big ? 3000000 : 200000);
}
static size_t pick_grain(Rng& r, long long n) {
    switch (r.below(8)) {
    case 0: case 1: return 1;
    case 2: return 2;
    case 3: return 3;
    case 4: return 7;
    case 5: return (size_t)(n / 3 + 1);
    case 6: return (size_t)(n + 1);
    default: return 1 + (size_t)r.below((uint64_t)std::max<long long>(1, n / 2));
    }
}
// simple_partitioner makes one leaf per grain: keep the number of leaves bounded
static size_t bound_leaves(size_t g, long long n, long long max_leaves) { if (n <= max_leaves) return g; size_t need = (size_t)(n / max_leaves) + 1; return std::max(g, need); }

static void report_obs_fail(Result& R, Obs& o, const std::string& scen) {
    if (o.fails.load()) { std::lock_guard<std::mutex> l(o.fm); R.violation(o.fkey, o.fwhat + " (" + std::to_string(o.fails.load()) + " failed checks in this call)", scen); }
}

// ------------------------------------------------------------------------------------------------ R: parallel_reduce
template <class Idx>
static void scen_reduce_t(Ctx& c, Rng& r, long long n, long long base, size_t g, int part, bool body_form, const float* data) {
    Result& R = result();
    auto o = std::make_unique<Obs>(); o->cls = 'R'; set_work(*o, r);
    Idx b = (Idx)base, e = (Idx)(base + n);
    Val got;
    c.A->execute([&] { got = do_reduce<Idx>(*o, false, body_form, part, *c.pool, r, b, e, g, data); });
    Json sj; sj.obj(); sj.kv("class", "R"); sj.kv("form", body_form ? "body" : "functional"); sj.kv("n", n); sj.kv("begin", base); sj.kv("grain", (unsigned long long)g);
    sj.kv("partitioner", part_name[part]); sj.kv("arena", c.conc); sj.kv("index_bits", (int)sizeof(Idx) * 8); sj.end_obj();
    if (!got.runs.is(base, base + n))
        R.violation("c06.R.result-wrong", std::string("parallel_reduce (") + (body_form ? "Body" : "functional") + " form, " + part_name[part] + ") over [" + std::to_string(base) + "," + std::to_string(base + n) +
                    ") grain " + std::to_string(g) + " returned the operand sequence " + got.runs.str() + " instead of the left-to-right fold", sj.s);
    report_obs_fail(R, *o, sj.s);
    long leaves = o->leaves.load();
    R.scenarios++;
    c.tally.add("R_calls"); c.tally.add("R_leaves", leaves); c.tally.add("R_joins", o->joins.load()); c.tally.add("R_lazy_body_splits", o->splits.load());
    if (leaves >= 2) c.tally.add("multi_task");
    if (o->multi.load()) {
        R.nontrivial++; c.tally.add("parallel_R"); c.tally.mx("max_threads_in_one_call", o->threads());
        R.signature(mix(mix(0x52, (uint64_t)n * 8 + part), mix(g, got.tree)));        // distinct = distinct reduction-tree shapes
        if (R.want_sample() && leaves >= 4 && leaves <= 40 && c.tally.c["samples_R"] < 2) {
            c.tally.add("samples_R");
            Json j; j.obj(); j.kv("class", "R parallel_reduce"); j.kv("form", body_form ? "body" : "functional"); j.kv("n", n); j.kv("begin", base); j.kv("grain", (unsigned long long)g);
            j.kv("partitioner", part_name[part]); j.kv("arena_concurrency", c.conc); j.kv("threads", o->threads()); j.kv("lazy_body_splits", o->splits.load()); j.kv("joins", o->joins.load());
            j.kv("result", got.runs.str()); j.kv("tree_hash", hex64(got.tree)); j.key("leaves[begin,end,kind,thread]"); o->chunks_json(j); j.end_obj(); R.sample(j.s);
        }
    }
}
static void scen_reduce(Ctx& c, Rng& r) {
    new_perturbation(c, r);
    int part = (int)r.below(5); bool body_form = r.chance(1, 2);
    if (r.chance(1, 40)) {          // huge index space, O(1) work per chunk: 64-bit indices up to 2^40, or int ranges ending at INT_MAX
        bool wide = r.chance(1, 2);
        long long n = wide ? (long long)(1ull << (31 + r.below(10))) + r.range(-3, 3) : (long long)0x7fffffff - (long long)r.below(5);
        size_t g = (size_t)(n / (200 + r.below(1800))) + 1;
        if (wide) scen_reduce_t<long long>(c, r, n, r.chance(1, 2) ? 0 : -(n / 2), g, part, body_form, nullptr);
        else scen_reduce_t<int>(c, r, n, 0x7fffffffLL - n, g, part, body_form, nullptr);
        return;
    }
    long long n = pick_n(r, false); size_t g = pick_grain(r, n);
    if (part == 0) g = bound_leaves(g, n, r.chance(1, 20) ? 20000 : 3000);
    long long base = 0;
    switch (r.below(6)) { case 0: base = 1; break; case 1: base = -5 - (long long)r.below(1000); break; case 2: base = 0x7fffffffLL - n; break; case 3: base = -0x80000000LL; break; default: break; }
    const float* data = n <= 65536 ? g_data : nullptr;
    if (r.chance(1, 6)) scen_reduce_t<long long>(c, r, n, base * (r.chance(1, 2) ? 1 : 100000), g, part, body_form, data);
    else scen_reduce_t<int>(c, r, n, base, g, part, body_form, data);
}

// ------------------------------------------------------------------------------------------------ D: parallel_deterministic_reduce
static void scen_det(Ctx& c, Rng& r) {
    Result& R = result();
    static const int parts[] = { 0, 0, 2, 2, 4 };
    int part = parts[r.below(5)]; bool body_form = r.chance(1, 2);
    long long n = std::max<long long>(1, pick_n(r, false)); size_t g = pick_grain(r, n);
    if (part != 2) g = bound_leaves(g, n, r.chance(1, 20) ? 20000 : 1500);
    long long base = r.chance(1, 3) ? (r.chance(1, 2) ? -17 : 0x7fffffffLL - n) : 0;
    const float* data = n <= 65536 ? g_data : nullptr;
    unsigned work = 0, work_p = 0, head = 0, nest = 0; { Obs tmp; set_work(tmp, r); work = tmp.work; work_p = tmp.work_p; head = tmp.head; nest = tmp.nest; }
    // simple: the tree depends on range and grain only -> arenas of different concurrency, hot and cold
    // static: the partitioner divides by the arena's concurrency -> compare arenas of equal concurrency, hot and cold
    tbb::task_arena* arenas[3]; int concs[3];
    if (part == 2) { arenas[0] = c.A; arenas[1] = c.A2; arenas[2] = c.A; concs[0] = concs[1] = concs[2] = c.conc; }
    else { arenas[0] = c.A; arenas[1] = c.B; arenas[2] = c.A2; concs[0] = c.conc; concs[1] = c.conc_b; concs[2] = c.conc; }
    int nruns = 2 + (int)r.below(2);
    Val got[3]; std::unique_ptr<Obs> obs[3];
    bool multi = false; long leaves = 0;
    Json sj; sj.obj(); sj.kv("class", "D"); sj.kv("form", body_form ? "body" : "functional"); sj.kv("n", n); sj.kv("begin", base); sj.kv("grain", (unsigned long long)g);
    sj.kv("partitioner", part_name[part]); sj.key("arenas").arr(); for (int k = 0; k < nruns; k++) sj.val(concs[k]); sj.end_arr(); sj.end_obj();
    for (int k = 0; k < nruns; k++) {
        new_perturbation(c, r);
        obs[k] = std::make_unique<Obs>(); Obs& o = *obs[k]; o.cls = 'D'; o.work = work; o.work_p = work_p; o.head = head; o.nest = nest;
        arenas[k]->execute([&] { got[k] = do_reduce<int>(o, true, body_form, part, *c.pool, r, (int)base, (int)(base + n), g, data); });
        if (!got[k].runs.is(base, base + n))
            R.violation("c06.D.result-wrong", std::string("parallel_deterministic_reduce (") + part_name[part] + ") over [" + std::to_string(base) + "," + std::to_string(base + n) + ") grain " + std::to_string(g) +
                        " returned the operand sequence " + got[k].runs.str(), sj.s);
        report_obs_fail(R, o, sj.s);
        multi = multi || o.multi.load(); leaves = o.leaves.load();
        // A workerless arena (concurrency 1) reports max_concurrency() 1 or 2 depending on whether enqueued/delegated work is
        // pending at that moment (mandatory concurrency), and static_partitioner divides by that number: the tree then
        // follows the arena's momentary concurrency. That is the documented dependence of static_partitioner on the arena
        // size, not a schedule dependence of the reduction itself: counted, not judged.
        bool unstable_divisor = part == 2 && c.conc == 1;
        if (k > 0 && unstable_divisor && got[k].tree != got[0].tree) c.tally.add("D_static_tree_varied_in_workerless_arena");
        if (k > 0 && !unstable_divisor && (got[k].tree != got[0].tree || fbits(got[k].f) != fbits(got[0].f))) {
            char buf[256]; snprintf(buf, sizeof buf, "run %d (arena concurrency %d, %d threads took part) gave tree %016llx float %a; run 0 (arena concurrency %d) gave tree %016llx float %a", k, concs[k], o.threads(),
                                    (unsigned long long)got[k].tree, (double)got[k].f, concs[0], (unsigned long long)got[0].tree, (double)got[0].f);
            R.violation("c06.D.nondeterministic", std::string("parallel_deterministic_reduce (") + part_name[part] + ", n=" + std::to_string(n) + ", grain=" + std::to_string(g) + "): " + buf, sj.s);
        }
        if (o.joins.load() != o.leaves.load() - 1 && o.leaves.load() > 0) c.tally.add("D_joins_not_leaves_minus_1");
    }
    if (part != 2) {
        Val ref = ref_tree(base, base + n, g, data, base);
        if (ref.tree != got[0].tree || fbits(ref.f) != fbits(got[0].f)) {
            char buf[200]; snprintf(buf, sizeof buf, "got tree %016llx float %a, recursion over the range gives tree %016llx float %a", (unsigned long long)got[0].tree, (double)got[0].f, (unsigned long long)ref.tree, (double)ref.f);
            R.violation("c06.D.tree-not-range-recursion", std::string("parallel_deterministic_reduce with simple_partitioner, n=") + std::to_string(n) + " grain=" + std::to_string(g) +
                        ": split/join tree is not 'split while divisible, new body per right half, join left<-right': " + buf, sj.s);
        }
    }
    R.scenarios++;
    c.tally.add("D_cases"); c.tally.add("D_runs", nruns); c.tally.add("D_leaves", leaves);
    if (leaves >= 2) c.tally.add("multi_task");
    if (multi) {
        R.nontrivial++; c.tally.add("parallel_D");
        uint64_t h = mix(0x44, mix((uint64_t)n * 8 + part, g));
        for (int k = 0; k < nruns; k++) h = mix(h, obs[k]->chunk_signature(true));      // the tree is fixed: distinct = distinct leaf->thread placements
        R.signature(h);
        if (R.want_sample() && leaves >= 4 && leaves <= 40 && c.tally.c["samples_D"] < 1) {
            c.tally.add("samples_D");
            Json j; j.obj(); j.kv("class", "D parallel_deterministic_reduce"); j.kv("form", body_form ? "body" : "functional"); j.kv("n", n); j.kv("begin", base); j.kv("grain", (unsigned long long)g);
            j.kv("partitioner", part_name[part]); j.key("runs").arr();
            for (int k = 0; k < nruns; k++) { j.obj(); j.kv("arena_concurrency", concs[k]); j.kv("threads", obs[k]->threads()); j.kv("tree_hash", hex64(got[k].tree)); j.kv("float_bits", hex64(fbits(got[k].f)));
                j.key("leaves[begin,end,kind,thread]"); obs[k]->chunks_json(j, 16); j.end_obj(); }
            j.end_arr(); j.end_obj(); R.sample(j.s);
        }
    }
}

// ------------------------------------------------------------------------------------------------ S: parallel_scan
static void scen_scan(Ctx& c, Rng& r) {
    Result& R = result();
    new_perturbation(c, r);
    static const int parts[] = { 0, 1, 4 };
    int part = parts[r.below(3)]; bool body_form = r.chance(1, 2);
    long long n = pick_n(r, true); size_t g = pick_grain(r, n);
    if (part == 0) g = bound_leaves(g, n, r.chance(1, 20) ? 20000 : 3000);
    long long base = r.chance(1, 3) ? (r.chance(1, 2) ? -9 : 0x7fffffffLL - n) : 0;
    auto o = std::make_unique<Obs>(); o->cls = 'S'; set_work(*o, r);
    std::vector<int> in((size_t)n); std::vector<uint64_t> out((size_t)n, ~0ull), refp((size_t)n);
    std::unique_ptr<std::atomic<unsigned char>[]> fin(new std::atomic<unsigned char>[(size_t)n + 1]);
    uint64_t salt = r.next();
    { uint64_t h = 0; for (long long i = 0; i < n; i++) { in[i] = (int)(mix(salt, (uint64_t)i) % 1000) - 300; fin[i].store(0, RLX); h = h * kB + (uint64_t)in[i]; refp[i] = h; } }
    SVal total;
    tbb::blocked_range<int> range((int)base, (int)(base + n), g);
    c.A->execute([&] {
        if (body_form) {
            SBody body(o.get(), in.data(), out.data(), fin.get(), refp.data(), base);
            switch (part) {
            case 0: tbb::parallel_scan(range, body, tbb::simple_partitioner()); break;
            case 1: tbb::parallel_scan(range, body, tbb::auto_partitioner()); break;
            default: tbb::parallel_scan(range, body); break;
            }
            total = body.sum;
        } else {
            Obs* op = o.get(); const int* inp = in.data(); uint64_t* outp = out.data(); auto* finp = fin.get(); const uint64_t* rp = refp.data();
            auto scan = [=](const tbb::blocked_range<int>& rg, const SVal& s, bool is_final) -> SVal { return SBody::scan_chunk(*op, rg, s, is_final, inp, outp, finp, rp, base); };
            auto comb = [=](const SVal& l, const SVal& rr) -> SVal { op->joins.fetch_add(1, RLX); return scombine(l, rr); };
            switch (part) {
            case 0: total = tbb::parallel_scan(range, SVal(), scan, comb, tbb::simple_partitioner()); break;
            case 1: total = tbb::parallel_scan(range, SVal(), scan, comb, tbb::auto_partitioner()); break;
            default: total = tbb::parallel_scan(range, SVal(), scan, comb); break;
            }
        }
    });
    Json sj; sj.obj(); sj.kv("class", "S"); sj.kv("form", body_form ? "body" : "functional"); sj.kv("n", n); sj.kv("begin", base); sj.kv("grain", (unsigned long long)g);
    sj.kv("partitioner", part_name[part]); sj.kv("arena", c.conc); sj.kv("data_salt", (unsigned long long)salt); sj.end_obj();
    std::string what = std::string("parallel_scan (") + (body_form ? "Body" : "functional") + " form, " + part_name[part] + ") over [" + std::to_string(base) + "," + std::to_string(base + n) + ") grain " + std::to_string(g) + ": ";
    for (long long i = 0; i < n; i++) {
        int f = fin[i].load(RLX);
        if (f != 1) { R.violation("c06.S.final-pass-count", what + "element " + std::to_string(base + i) + " got " + std::to_string(f) + " final passes", sj.s); break; }
        if (out[i] != refp[i]) { R.violation("c06.S.output-wrong", what + "out[" + std::to_string(base + i) + "] = " + hex64(out[i]) + ", sequential inclusive scan gives " + hex64(refp[i]), sj.s); break; }
    }
    uint64_t want_total = n > 0 ? refp[n - 1] : 0;
    if (!total.runs.is(base, base + n) || total.h != want_total)
        R.violation("c06.S.total-wrong", what + "returned total " + total.runs.str() + " (hash " + hex64(total.h) + "), expected the full reduction (hash " + hex64(want_total) + ")", sj.s);
    report_obs_fail(R, *o, sj.s);
    long chunks = o->pre.load() + o->fin.load();
    R.scenarios++;
    c.tally.add("S_calls"); c.tally.add("S_pre_chunks", o->pre.load()); c.tally.add("S_final_chunks", o->fin.load()); c.tally.add("S_combines", o->joins.load());
    if (o->pre.load() > 0) c.tally.add("S_calls_with_prepass");
    if (chunks >= 2) c.tally.add("multi_task");
    if (o->multi.load()) {
        R.nontrivial++; c.tally.add("parallel_S");
        R.signature(mix(mix(0x53, (uint64_t)n * 8 + part), mix(g, o->chunk_signature(false))));   // distinct = distinct pre/final chunk mixes
        if (R.want_sample() && chunks >= 4 && chunks <= 40 && c.tally.c["samples_S"] < 1) {
            c.tally.add("samples_S");
            Json j; j.obj(); j.kv("class", "S parallel_scan"); j.kv("form", body_form ? "body" : "functional"); j.kv("n", n); j.kv("begin", base); j.kv("grain", (unsigned long long)g);
            j.kv("partitioner", part_name[part]); j.kv("arena_concurrency", c.conc); j.kv("threads", o->threads()); j.kv("pre_chunks", o->pre.load()); j.kv("final_chunks", o->fin.load());
            j.key("chunks[begin,end,final,thread]"); o->chunks_json(j); j.end_obj(); R.sample(j.s);
        }
    }
}

// ------------------------------------------------------------------------------------------------ Q: parallel_sort
static const int kGuard = 8;
struct SortCase { int cls; int n; long pos; int cmpkind; int container; };   // container: 0 vector iterators (sub-range with guards), 1 raw pointers, 2 deque, 3 range overload
static const char* cont_name[] = { "vector-iterators", "pointers", "deque-iterators", "container-overload" };

static bool run_sort_case(Ctx& c, Rng& r, const SortCase& sc, Obs& o) {
    Result& R = result();
    int n = sc.n;
    std::vector<int> keys = sort_keys(sc.cls, n, sc.pos, sc.cmpkind == 4 ? 0 : sc.cmpkind, r);
    std::vector<KV> orig(n); for (int i = 0; i < n; i++) orig[i] = KV{ keys[i], i, kv_chk(keys[i], i) };
    bool guards = sc.container != 3;
    std::vector<KV> buf; std::deque<KV> dq;
    const KV gl{ 0x7fffffff, -1, 0xDEADBEEFu }, gr{ (int)0x80000000, -2, 0xFEEDFACEu };   // would move if compared/swapped out of range
    if (guards) { buf.assign(kGuard, gl); buf.insert(buf.end(), orig.begin(), orig.end()); buf.insert(buf.end(), kGuard, gr); } else buf = orig;
    if (sc.container == 2) dq.assign(buf.begin(), buf.end());
    Cmp cmp{ &o, sc.cmpkind == 4 ? 3 : sc.cmpkind };
    int off = guards ? kGuard : 0;
    c.A->execute([&] {
        switch (sc.container) {
        case 0: if (sc.cmpkind == 4) tbb::parallel_sort(buf.begin() + off, buf.begin() + off + n); else tbb::parallel_sort(buf.begin() + off, buf.begin() + off + n, cmp); break;
        case 1: if (sc.cmpkind == 4) tbb::parallel_sort(buf.data() + off, buf.data() + off + n); else tbb::parallel_sort(buf.data() + off, buf.data() + off + n, cmp); break;
        case 2: if (sc.cmpkind == 4) tbb::parallel_sort(dq.begin() + off, dq.begin() + off + n); else tbb::parallel_sort(dq.begin() + off, dq.begin() + off + n, cmp); break;
        default: if (sc.cmpkind == 4) tbb::parallel_sort(buf); else tbb::parallel_sort(buf, cmp); break;
        }
    });
    if (sc.container == 2) buf.assign(dq.begin(), dq.end());
    Json sj; sj.obj(); sj.kv("class", "Q"); sj.kv("input", sc_name[sc.cls]); sj.kv("n", n); sj.kv("inversion_at", sc.pos); sj.kv("comparator", cmp_name[sc.cmpkind]); sj.kv("container", cont_name[sc.container]);
    sj.kv("arena", c.conc); sj.end_obj();
    std::string what = std::string("parallel_sort of ") + std::to_string(n) + " elements (" + sc_name[sc.cls] + (sc.cls == SC_INVERSION || sc.cls == SC_EQRUNS_INV ? " at " + std::to_string(sc.pos) : "") + ", " +
                       cmp_name[sc.cmpkind] + ", " + cont_name[sc.container] + "): ";
    bool ok = true;
    Cmp quiet{ nullptr, cmp.kind };
    for (int i = 0; i + 1 < n; i++) if (quiet(buf[off + i + 1], buf[off + i])) {
        R.violation("c06.Q.not-sorted", what + "output[" + std::to_string(i + 1) + "] (key " + std::to_string(buf[off + i + 1].k) + ") orders before output[" + std::to_string(i) + "] (key " + std::to_string(buf[off + i].k) + ")", sj.s);
        ok = false; break;
    }
    std::vector<unsigned char> seen(n, 0);
    for (int i = 0; i < n; i++) {
        const KV& e = buf[off + i];
        if (e.idx < 0 || e.idx >= n || orig[e.idx].k != e.k || e.chk != kv_chk(e.k, e.idx) || seen[e.idx]++) {
            R.violation("c06.Q.not-permutation", what + "output[" + std::to_string(i) + "] = (key " + std::to_string(e.k) + ", index " + std::to_string(e.idx) + ") is not an element of the input or appears twice", sj.s);
            ok = false; break;
        }
    }
    if (guards) for (int i = 0; i < kGuard; i++) {
        const KV& a = buf[i]; const KV& b = buf[off + n + i];
        if (a.k != gl.k || a.idx != gl.idx || a.chk != gl.chk || b.k != gr.k || b.idx != gr.idx || b.chk != gr.chk) { R.violation("c06.Q.guard-overwritten", what + "an element outside [begin,end) was modified", sj.s); ok = false; break; }
    }
    return ok;
}

static void finish_sort_scen(Ctx& c, Obs& o, const SortCase& sc, uint64_t extra_sig) {
    Result& R = result();
    R.scenarios++;
    c.tally.add("Q_sorts"); c.tally.add(sc.n < 500 ? "Q_below_cutoff" : "Q_at_or_above_cutoff");
    if (sc.n >= 500) c.tally.add("multi_task");
    if (o.multi.load()) {
        R.nontrivial++; c.tally.add("parallel_Q"); c.tally.mx("max_threads_in_one_call", o.threads());
        R.signature(mix(mix(0x51, (uint64_t)sc.cls * 64 + sc.cmpkind * 8 + sc.container), mix(mix((uint64_t)sc.n, (uint64_t)sc.pos), mix(extra_sig, o.threads()))));
        if (R.want_sample() && c.tally.c["samples_Q"] < 1) {
            c.tally.add("samples_Q");
            Json j; j.obj(); j.kv("class", "Q parallel_sort"); j.kv("input", sc_name[sc.cls]); j.kv("n", sc.n); j.kv("inversion_at", sc.pos); j.kv("comparator", cmp_name[sc.cmpkind]); j.kv("container", cont_name[sc.container]);
            j.kv("arena_concurrency", c.conc); j.kv("threads_calling_the_comparator", o.threads()); j.end_obj(); R.sample(j.s);
        }
    }
}

static void scen_sort_strings(Ctx& c, Rng& r) {
    Result& R = result();
    int n = r.chance(1, 2) ? 480 + (int)r.below(60) : 2 + (int)r.below(3000);
    std::vector<HS> v(n), orig;
    int few = r.chance(1, 3) ? 5 : 100000;
    for (int i = 0; i < n; i++) { v[i].s = "k" + std::to_string(r.below(few)) + std::string((size_t)r.below(30), 'x'); v[i].idx = i; }   // some longer than the SSO buffer
    orig = v;
    auto o = std::make_unique<Obs>(); o->cls = 'Q'; Obs* op = o.get();
    auto cmp = [op](const HS& a, const HS& b) { op->touch(); return a.s < b.s; };
    c.A->execute([&] { tbb::parallel_sort(v.begin(), v.end(), cmp); });
    Json sj; sj.obj(); sj.kv("class", "Q"); sj.kv("input", "strings"); sj.kv("n", n); sj.end_obj();
    std::vector<unsigned char> seen(n, 0);
    for (int i = 0; i < n; i++) {
        if (i + 1 < n && v[i + 1].s < v[i].s) { R.violation("c06.Q.not-sorted", "parallel_sort of " + std::to_string(n) + " strings: output[" + std::to_string(i + 1) + "] orders before output[" + std::to_string(i) + "]", sj.s); break; }
        if (v[i].idx < 0 || v[i].idx >= n || orig[v[i].idx].s != v[i].s || seen[v[i].idx]++) { R.violation("c06.Q.not-permutation", "parallel_sort of " + std::to_string(n) + " strings: output[" + std::to_string(i) + "] is not an input element or appears twice", sj.s); break; }
    }
    SortCase sc{ SC_RANDOM, n, 0, 0, 0 };
    c.tally.add("Q_string_sorts");
    finish_sort_scen(c, *o, sc, 0x5757);
}

static void scen_sort(Ctx& c, Rng& r) {
    new_perturbation(c, r);
    if (r.chance(1, 25)) { scen_sort_strings(c, r); return; }
    SortCase sc;
    unsigned k = (unsigned)r.below(100);
    if (k < 35) sc.n = 480 + (int)r.below(51);
    else if (k < 55) sc.n = (int)r.below(480);
    else if (k < 90) sc.n = 531 + (int)r.below(5000);
    else sc.n = 5000 + (int)r.below(g_big ? 1500000 : 150000);
    sc.cls = (int)r.below(SC_COUNT);
    if (r.chance(1, 4)) sc.cls = SC_INVERSION;
    sc.pos = sc.n >= 2 ? (long)r.below((uint64_t)sc.n - 1) : 0;
    if (sc.n >= 16 && r.chance(1, 6)) sc.pos = 6 + (long)r.below(6);                 // around the serial 9-element pre-test
    sc.cmpkind = (int)r.below(5); sc.container = (int)r.below(4);
    auto o = std::make_unique<Obs>(); o->cls = 'Q';
    run_sort_case(c, r, sc, *o);
    c.tally.add((std::string("Q_input_") + sc_name[sc.cls]).c_str());
    finish_sort_scen(c, *o, sc, 0);
}

// every (n, position of the single inversion) pair for sizes around the 500-element cut-off
static const int kInvLo = 496, kInvHi = 524;
static long inv_space() { long s = 0; for (int n = kInvLo; n <= kInvHi; n++) s += n - 1; return s; }
static void inv_pair(long idx, int& n, long& pos) { for (n = kInvLo; n <= kInvHi; n++) { if (idx < n - 1) { pos = idx; return; } idx -= n - 1; } n = kInvHi; pos = 0; }
static void scen_sortinv(Ctx& c, Rng& r, long k) {
    if ((k & 63) == 0) new_perturbation(c, r);
    long space = inv_space(); long sweep = k / space;
    SortCase sc; inv_pair(k % space, sc.n, sc.pos);
    sc.cls = (sweep % 3 == 2) ? SC_EQRUNS_INV : SC_INVERSION;
    sc.cmpkind = (int)((sweep + (sweep / 3)) % 5); sc.container = (int)((sweep / 2) % 4);
    if (sc.cls == SC_EQRUNS_INV && (sc.pos % 8) != 7) sc.cls = SC_INVERSION;       // inside a run of equal keys a swap is not an inversion
    auto o = std::make_unique<Obs>(); o->cls = 'Q';
    run_sort_case(c, r, sc, *o);
    c.tally.add("Q_sortinv_pairs");
    finish_sort_scen(c, *o, sc, 0x1417);
}

// ------------------------------------------------------------------------------------------------ main
std::vector<HookThread*>* volatile g_keep_hook_threads = nullptr;   // external linkage + volatile: the store must survive optimisation
int main(int argc, char** argv) {
    Args a = standard_init(argc, argv, "c06");
    Result& R = result();
    long cases = a.num("cases", 2000);
    g_light = (R.variant == "tsan") || a.has("light");
    g_big = a.num("big", 0) != 0;
    int maxdrivers = (int)a.num("drivers", 3);
    bool hot = a.num("hot", 1) != 0;
    int fixed_conc = (int)a.num("conc", 0);
    std::string mode = R.mode;
    for (int i = 0; i < 65536; i++) g_data[i] = (float)((i * 2654435761u) % 100003) / 7.0f * ((i % 3) ? 1.f : -1e-3f);
    // delay points: partitioner/reduce/scan windows, the join-tree decrement, and the steal protocol (where bodies get split)
    std::vector<int> ids = { 200, 201, 202, 203, 204, 205, 206, 207, 208, 209, 200, 201, 202, 203, 204, 205, 206, 43, 10, 3, 2, 8, 20 };
    Rng top(mix(R.seed, 0xC06));
    tbb::global_control gc(tbb::global_control::max_allowed_parallelism, 16);
    PartPool pool;
    perturb().max_sleep_us.store(120);

    WatchdogCfg wc;
    watchdog_start(wc, [&](const HangInfo& hi) {
        // the bodies of this harness never block: an outstanding call in a quiescent / spin-stalled process is a lost task or wake-up
        std::string key = hi.quiescent ? "c06.X.hang.quiescent" : hi.spin_stall ? "c06.X.hang.spin-stall" : "";
        std::string d = "a parallel algorithm call did not return; no progress for " + std::to_string(hi.stalled_for) + "s; threads: " + hi.threads + "\n" + rings_dump();
        if (key.empty()) { R.inconclusive++; fprintf(stderr, "[c06] watchdog: inconclusive stall\n%s\n", d.c_str()); R.finish_and_exit(4); }
        R.violation(key, d.substr(0, 1500), "{}");
        R.finish_and_exit(3);
    });

    long done = 0;
    std::atomic<long> inv_next{0};
    while (done < cases) {
        int conc = fixed_conc ? fixed_conc : (int)top.pick(std::vector<int>{ 1, 2, 2, 3, 4, 4, 6, 8, 16 });
        static const int others[] = { 1, 2, 3, 5, 8, 12 };
        int conc_b; do { conc_b = others[top.below(6)]; } while (conc_b == conc);
        tbb::task_arena A(conc), B(conc_b), A2(conc);
        A.initialize(); B.initialize(); A2.initialize();
        std::unique_ptr<Keeper> keeper, keeper_b;
        if (hot && conc > 1) keeper.reset(new Keeper(A, 4, 40));
        if (hot && conc_b > 1 && top.chance(1, 2)) keeper_b.reset(new Keeper(B, 2, 80));
        int drivers = 1 + (int)top.below(maxdrivers);
        long batch = std::min<long>(cases - done, mode == "sortinv" ? 2000 : 60 + (long)top.below(120));
        std::atomic<long> next{0};
        std::vector<std::thread> th;
        uint64_t bseed = top.next();
        for (int d = 0; d < drivers; d++) th.emplace_back([&, d] {
            Rng r(mix(bseed, d));
            Ctx c; c.A = &A; c.B = &B; c.A2 = &A2; c.conc = conc; c.conc_b = conc_b; c.pool = &pool; c.driver = d; c.perturb_owner = (d == 0); c.ids = ids;
            for (;;) {
                long k = next.fetch_add(1); if (k >= batch) break;
                if (mode == "reduce") scen_reduce(c, r);
                else if (mode == "det") scen_det(c, r);
                else if (mode == "scan") scen_scan(c, r);
                else if (mode == "sort") scen_sort(c, r);
                else if (mode == "sortinv") scen_sortinv(c, r, inv_next.fetch_add(1));
                else { unsigned x = (unsigned)r.below(100); if (x < 35) scen_reduce(c, r); else if (x < 50) scen_det(c, r); else if (x < 75) scen_scan(c, r); else scen_sort(c, r); }
                progress();
            }
            c.tally.flush(R);
        });
        for (auto& t : th) t.join();
        done += batch;
        perturb().clear();
        keeper.reset(); keeper_b.reset();
        R.stat("batches");
    }
    watchdog_stop();
    if (mode == "sortinv") { R.stat("Q_sortinv_space", inv_space()); R.stat("Q_sortinv_full_sweeps", inv_next.load() / inv_space()); }
    R.stat("hook_delays", (long long)perturb().delays.load());
    // vrt never frees its per-thread hook records, but the registry that points to them is a static vector that is destroyed
    // before LeakSanitizer looks: keep them reachable from a root that has no destructor (local workaround, see report)
    g_keep_hook_threads = new std::vector<HookThread*>(hook_threads_snapshot());
    R.write();
    return 0;
}
