// C09 class S: long stress histories (2-6 threads x 200-1500 operations) judged by the O(n log n) aspect checks:
// conservation, FIFO vs real time (per-producer order included), empty witness, capacity bound, try_push-full witness.
#pragma once
#include "c09_lin.h"

namespace c09 {

inline long concurrent_ops(const std::vector<Op>& ops) {
    // operations during which at least one operation of another thread was invoked
    std::vector<std::pair<uint64_t, int>> calls; for (auto& o : ops) calls.push_back({ o.call, o.thread });
    std::sort(calls.begin(), calls.end());
    long c = 0;
    for (auto& o : ops) {
        auto it = std::upper_bound(calls.begin(), calls.end(), std::make_pair(o.call, 1 << 30));
        for (int k = 0; k < 3 && it != calls.end() && it->first < o.ret; ++it, ++k) if (it->second != o.thread) { c++; break; }
    }
    return c;
}

inline void run_stress(Engine& E, Rng& r) {
    Result& R = result();
    Plan p; p.cls = 'S'; p.seed = r.next();
    p.nthreads = 2 + (int)r.below(5);
    p.size_class = (int)r.below(6);
    p.bounded = r.chance(3, 5);
    p.cap = p.bounded ? r.pick(std::vector<long>{ 1, 2, 3, 5, 8, 64, -1 }) : -1;
    p.preadvance = (int)r.below(40);
    p.prefill = 0;
    p.wall_clock = r.chance(1, 3);
    p.max_help = 1 << 30;
    int per = 200 + (int)r.below(1300);
    for (int t = 0; t < p.nthreads; t++) {
        unsigned pp = (unsigned)r.pick(std::vector<int>{ 80, 50, 50, 20 });
        if (t == 0) pp = 70; if (t == 1) pp = 30;            // at least one producer-ish and one consumer-ish thread
        bool blocking = p.bounded && r.chance(2, 3);
        for (int i = 0; i < per; i++) {
            PlanOp o; o.val = t * 1000000L + i; o.delay = r.chance(1, 10) ? (uint16_t)r.below(600) : 0;
            if (r.below(100) < pp) { unsigned x = (unsigned)r.below(100); o.kind = p.bounded ? (blocking ? (x < 50 ? K_PUSH : x < 65 ? K_EMPLACE : K_TRY_PUSH) : K_TRY_PUSH) : (x < 70 ? K_PUSH : K_EMPLACE); }
            else o.kind = (blocking && r.chance(1, 2)) ? K_POP : K_TRY_POP;
            p.ops[t].push_back(o);
        }
    }
    hang_ctx().begin('S', p.bounded ? p.cap : -1, "{\"class\":\"S\",\"seed\":" + std::to_string(p.seed) + ",\"threads\":" + std::to_string(p.nthreads) + ",\"ops_per_thread\":" + std::to_string(per) + ",\"capacity\":" + std::to_string(p.cap) + ",\"elem_bytes\":" + std::to_string(kSizes[p.size_class]) + "}");
    Outcome out;
    perturb_random(r, hook_ids());
    by_size(p.size_class, [&](auto sz) {
        constexpr int SZ = decltype(sz)::value;
        if (p.bounded) { BL<SZ> q; E.run(q, p, out); } else { QL<SZ> q; E.run(q, p, out); }
    });
    perturb().clear();
    R.scenarios++;
    Aspect as; long cap = p.bounded ? p.cap : -1;
    aspect_check(out.ops, E.out_initial, cap, out, as);
    for (auto& o : out.ops) if (o.res <= RS_THREW && o.res != RS_CORRUPT) out.fail("unexpected-exception", std::string(kind_names[o.kind]) + " ended with exception code " + std::to_string(o.res));
    long conc = concurrent_ops(out.ops);
    R.stat("S_histories"); R.stat("S_ops", (long long)out.ops.size()); R.stat("S_concurrent_ops", conc); R.stat("S_helper_ops", out.helper_ops);
    R.stat("S_pops", as.pops); R.stat("S_try_pop_empty", as.empties); R.stat("S_try_push_full", as.fulls);
    if (conc * 20 >= (long)out.ops.size()) { R.nontrivial++; R.signature(mix(history_signature(out.ops), 'S')); }
    R.stat("try_push_while_pop_blocked", out.try_push_while_pop_blocked);
    if (!out.fail_key.empty() && !out.reported) {
        Json j; j.obj(); j.kv("seed", (unsigned long long)p.seed); j.kv("threads", p.nthreads); j.kv("ops_per_thread", per); j.kv("queue", p.bounded ? "concurrent_bounded_queue" : "concurrent_queue"); j.kv("capacity", cap); j.kv("elem_bytes", kSizes[p.size_class]); j.end_obj();
        R.violation(cls_key('S', out.fail_key), out.fail_detail + "\n" + rings_dump(6), j.s);
    }
}

// ---------------------------------------------------------------------------------------------- class C: credit-bounded traffic
// A bounded queue of capacity cap with cap credits in circulation: a producer takes a credit BEFORE it calls try_push / try_emplace, a
// consumer gives one back AFTER its try_pop returned an item. While a producer holds a credit at most cap-1 other credits are out, so at
// most cap-1 values are inside or on their way in: the queue is not full at any instant of the producer's call, and a linearizable
// bounded queue must accept the push. Any `false` is a violation - no history search needed, so millions of try_push calls against
// concurrent pops and competing pushes can be judged (the conservative interval bound of class S cannot see a try_push that compares the
// tail it lost the CAS for with a head it read before). Also checked: per-producer FIFO order at each consumer, nothing lost or duplicated.
inline void run_credit(Engine& E, Rng& r) {
    (void)E;
    Result& R = result();
    const int np = 2 + (int)r.below(5), nc = 1 + (int)r.below(3);
    const long cap = r.pick(std::vector<long>{ 2, 2, 3, 4, 4, 8, 16 });
    const int per = 400 + (int)r.below(2600);
    const uint64_t seed = r.next();
    const bool pin2 = r.chance(1, 3);
    hang_ctx().begin('C', cap, "{\"class\":\"C\",\"seed\":" + std::to_string(seed) + ",\"producers\":" + std::to_string(np) + ",\"consumers\":" + std::to_string(nc) + ",\"pushes_per_producer\":" + std::to_string(per) + ",\"capacity\":" + std::to_string(cap) + "}");
    tbb::concurrent_bounded_queue<long> q; q.set_capacity((std::ptrdiff_t)cap);
    std::atomic<long> credits{cap}, produced{0}, consumed{0}, false_full{0}, fifo_bad{0}; std::atomic<int> producers_left{np};
    std::atomic<long> first_bad_val{-1};
    perturb_random(r, hook_ids());
    std::vector<std::thread> th;
    Barrier start(np + nc);
    auto pin = [&](int t) { if (!pin2) return; cpu_set_t cs; CPU_ZERO(&cs); CPU_SET(t & 1, &cs); pthread_setaffinity_np(pthread_self(), sizeof cs, &cs); };
    for (int p = 0; p < np; p++) th.emplace_back([&, p] {
        pin(p); Rng tr(mix(seed, 100 + p)); start.wait();
        for (int i = 0; i < per; i++) {
            for (int spins = 0;; ) { long c = credits.load(std::memory_order_acquire); if (c > 0 && credits.compare_exchange_weak(c, c - 1, std::memory_order_acq_rel)) break; if (++spins > 30) { sched_yield(); spins = 0; } }
            long v = (long)p * 10000000L + i;
            bool ok = tr.chance(1, 2) ? q.try_push(v) : q.try_emplace(v);
            if (!ok) { false_full.fetch_add(1, std::memory_order_relaxed); long e = -1; first_bad_val.compare_exchange_strong(e, v); credits.fetch_add(1, std::memory_order_release); }
            else produced.fetch_add(1, std::memory_order_relaxed);
            if ((i & 63) == 0) progress();
        }
        producers_left.fetch_sub(1, std::memory_order_release);
    });
    for (int c = 0; c < nc; c++) th.emplace_back([&, c] {
        pin(np + c); std::vector<long> last(np, -1); start.wait(); int idle = 0;
        for (;;) {
            long v;
            if (q.try_pop(v)) {
                idle = 0; int p = (int)(v / 10000000L); long i = v % 10000000L;
                if (p < 0 || p >= np || i <= last[p]) fifo_bad.fetch_add(1, std::memory_order_relaxed); else last[p] = i;
                consumed.fetch_add(1, std::memory_order_relaxed);
                credits.fetch_add(1, std::memory_order_release);
            } else {
                if (producers_left.load(std::memory_order_acquire) == 0 && consumed.load() >= produced.load()) break;
                if (++idle > 20) { sched_yield(); idle = 0; }
            }
        }
    });
    for (auto& t : th) t.join();
    perturb().clear();
    R.scenarios++; R.nontrivial++;
    R.stat("C_scenarios"); R.stat("C_try_push_calls_holding_a_credit", (long long)np * per); R.stat("C_values_delivered", consumed.load());
    R.signature(mix(mix((uint64_t)np * 8 + nc, (uint64_t)cap), (uint64_t)(consumed.load() & 0xff)));
    Json j; j.obj(); j.kv("class", "C"); j.kv("seed", (unsigned long long)seed); j.kv("producers", np); j.kv("consumers", nc); j.kv("capacity", cap); j.kv("pushes_per_producer", per); j.kv("pinned_to_2_cpus", pin2); j.end_obj();
    if (false_full.load()) R.violation(cls_key('C', "try_push-false-not-full"), std::to_string(false_full.load()) + " try_push/try_emplace calls returned false although the caller held one of the " + std::to_string(cap) + " credits (at most capacity-1 values could be inside at any instant of the call); first: value " + std::to_string(first_bad_val.load()), j.s);
    else if (fifo_bad.load()) R.violation(cls_key('C', "fifo-per-producer"), std::to_string(fifo_bad.load()) + " values reached a consumer out of their producer's order (or twice)", j.s);
    else if (consumed.load() != (long)np * per || q.size() != 0) R.violation(cls_key('C', "value-lost"), "pushed " + std::to_string((long)np * per) + ", delivered " + std::to_string(consumed.load()) + ", size() " + std::to_string((long)q.size()), j.s);
}

} // namespace c09
