// C09 class S: long stress histories (2-6 threads x 200-1500 operations) judged by the O(n log n) aspect checks:
// conservation, FIFO vs real time (per-producer order included), empty witness, capacity bound, try_push-full witness.
#pragma once
#include "c09_lin.h"

namespace c09 {

inline long concurrent_ops(const std::vector<Op>& ops) {
    // operations during which at least one operation of another thread was invoked
    std::vector<std::pair<uint64_t, int>> calls; for (auto& o : ops) calls.push_back({ o.call, o.thread });
    std::sort(calls.begin(), calls.end());
    long c = 0;
    for (auto& o : ops) {
        auto it = std::upper_bound(calls.begin(), calls.end(), std::make_pair(o.call, 1 << 30));
        for (int k = 0; k < 3 && it != calls.end() && it->first < o.ret; ++it, ++k) if (it->second != o.thread) { c++; break; }
    }
    return c;
}

inline void run_stress(Engine& E, Rng& r) {
    Result& R = result();
    Plan p; p.cls = 'S'; p.seed = r.next();
    p.nthreads = 2 + (int)r.below(5);
    p.size_class = (int)r.below(6);
    p.bounded = r.chance(3, 5);
    p.cap = p.bounded ? r.pick(std::vector<long>{ 1, 2, 3, 5, 8, 64, -1 }) : -1;
    p.preadvance = (int)r.below(40);
    p.prefill = 0;
    p.wall_clock = r.chance(1, 3);
    p.max_help = 1 << 30;
    int per = 200 + (int)r.below(1300);
    for (int t = 0; t < p.nthreads; t++) {
        unsigned pp = (unsigned)r.pick(std::vector<int>{ 80, 50, 50, 20 });
        if (t == 0) pp = 70; if (t == 1) pp = 30;            // at least one producer-ish and one consumer-ish thread
        bool blocking = p.bounded && r.chance(2, 3);
        for (int i = 0; i < per; i++) {
            PlanOp o; o.val = t * 1000000L + i; o.delay = r.chance(1, 10) ? (uint16_t)r.below(600) : 0;
            if (r.below(100) < pp) { unsigned x = (unsigned)r.below(100); o.kind = p.bounded ? (blocking ? (x < 50 ? K_PUSH : x < 65 ? K_EMPLACE : K_TRY_PUSH) : K_TRY_PUSH) : (x < 70 ? K_PUSH : K_EMPLACE); }
            else o.kind = (blocking && r.chance(1, 2)) ? K_POP : K_TRY_POP;
            p.ops[t].push_back(o);
        }
    }
    hang_ctx().begin('S', p.bounded ? p.cap : -1, "{\"class\":\"S\",\"seed\":" + std::to_string(p.seed) + ",\"threads\":" + std::to_string(p.nthreads) + ",\"ops_per_thread\":" + std::to_string(per) + ",\"capacity\":" + std::to_string(p.cap) + ",\"elem_bytes\":" + std::to_string(kSizes[p.size_class]) + "}");
    Outcome out;
    perturb_random(r, hook_ids());
    by_size(p.size_class, [&](auto sz) {
        constexpr int SZ = decltype(sz)::value;
        if (p.bounded) { BL<SZ> q; E.run(q, p, out); } else { QL<SZ> q; E.run(q, p, out); }
    });
    perturb().clear();
    R.scenarios++;
    Aspect as; long cap = p.bounded ? p.cap : -1;
    aspect_check(out.ops, E.out_initial, cap, out, as);
    for (auto& o : out.ops) if (o.res <= RS_THREW && o.res != RS_CORRUPT) out.fail("unexpected-exception", std::string(kind_names[o.kind]) + " ended with exception code " + std::to_string(o.res));
    long conc = concurrent_ops(out.ops);
    R.stat("S_histories"); R.stat("S_ops", (long long)out.ops.size()); R.stat("S_concurrent_ops", conc); R.stat("S_helper_ops", out.helper_ops);
    R.stat("S_pops", as.pops); R.stat("S_try_pop_empty", as.empties); R.stat("S_try_push_full", as.fulls);
    if (conc * 20 >= (long)out.ops.size()) { R.nontrivial++; R.signature(mix(history_signature(out.ops), 'S')); }
    R.stat("try_push_while_pop_blocked", out.try_push_while_pop_blocked);
    if (!out.fail_key.empty() && !out.reported) {
        Json j; j.obj(); j.kv("seed", (unsigned long long)p.seed); j.kv("threads", p.nthreads); j.kv("ops_per_thread", per); j.kv("queue", p.bounded ? "concurrent_bounded_queue" : "concurrent_queue"); j.kv("capacity", cap); j.kv("elem_bytes", kSizes[p.size_class]); j.end_obj();
        R.violation(cls_key('S', out.fail_key), out.fail_detail + "\n" + rings_dump(6), j.s);
    }
}

} // namespace c09
