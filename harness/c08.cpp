// C08: mutexes - mutual exclusion, reader/writer rules, truthful upgrade, no lost grant, queue order.
//
// A batch = one mutex kind x T persistent threads (2-8) x 30-150 rounds; a round (= scenario) = fresh mutex object(s),
// all threads start together (barrier) and run a random operation sequence. Three scenario classes:
//   X  random sequences of acquire / try_acquire (read or write) -> section -> [upgrade | downgrade -> section]* -> release
//      on 1-2 locks, through scoped_lock acquire/release, scoped_lock ctor/dtor and the native lock()/unlock() interface;
//      hold profiles hot / mixed / blocking-only (queue-order dense) / sleepy (sleeping paths of mutex and rw_mutex)
//   T  thread 0 holds the lock (as writer or reader) until every other thread finished k try_acquire calls:
//      try must return (else the holder waits for ever -> watchdog) and must not succeed against the holder
//   U  upgrade storm: k readers hold the lock together, then all call upgrade_to_writer at once while the remaining
//      threads queue up as writers/readers
//   R  (only with --cls R, queuing_rw_mutex only) class X sequences that may upgrade again after a downgrade inside one hold
//      (upgrade -> downgrade -> upgrade). Everywhere else queuing_rw_mutex never sees that pattern; the other rw kinds see it in X.
// Oracles (all certain, none timing based):
//   * holder bookkeeping inside every section: per-thread slot flags (plain stores: no fence is added inside the
//     critical section), in "heavy" rounds also atomic writer/reader counters, and two plain words a,b (writer: a=v+1 ..
//     b=v+1; reader: b==a and unchanged over the section) which double as the version counter and as TSan's race target
//   * sum of write sections == final version (lost update / visibility)
//   * upgrade_to_writer()==true  => version at entry of the write section == version seen in the read section
//   * version unchanged across downgrade_to_reader
//   * queue order (queuing_mutex, queuing_rw_mutex): request A whose queue-entry hook stamp (hooks 120/122, witness =
//     scoped_lock address) precedes the CALL stamp of a conflicting request B was granted before B (try successes count as B)
//   * hang: quiescence / spin-stall from the watchdog while at least one thread sits inside a mutex operation and no
//     thread is running harness code
#define VRT_IMPL
#include "vrt_tbb.h"
#include <oneapi/tbb/spin_mutex.h>
#include <oneapi/tbb/queuing_mutex.h>
#include <oneapi/tbb/mutex.h>
#include <oneapi/tbb/spin_rw_mutex.h>
#include <oneapi/tbb/queuing_rw_mutex.h>
#include <oneapi/tbb/rw_mutex.h>
#include <new>
#include <memory>

using namespace vrt;

// ------------------------------------------------------------------------------------------------ kinds
enum KindId { K_SPIN, K_QUEUING, K_MUTEX, K_SPEC, K_SPIN_RW, K_QUEUING_RW, K_RW, K_SPEC_RW, K_N };
static const char* kind_name[K_N] = { "spin_mutex", "queuing_mutex", "mutex", "speculative_spin_mutex",
                                      "spin_rw_mutex", "queuing_rw_mutex", "rw_mutex", "speculative_spin_rw_mutex" };
template <class M> struct KT;
template <> struct KT<tbb::spin_mutex>               { static constexpr bool rw = false, native = true;  static constexpr int hook = 0;   static constexpr int id = K_SPIN; };
template <> struct KT<tbb::queuing_mutex>            { static constexpr bool rw = false, native = false; static constexpr int hook = 120; static constexpr int id = K_QUEUING; };
template <> struct KT<tbb::mutex>                    { static constexpr bool rw = false, native = true;  static constexpr int hook = 0;   static constexpr int id = K_MUTEX; };
template <> struct KT<tbb::speculative_spin_mutex>   { static constexpr bool rw = false, native = false; static constexpr int hook = 0;   static constexpr int id = K_SPEC; };
template <> struct KT<tbb::spin_rw_mutex>            { static constexpr bool rw = true,  native = true;  static constexpr int hook = 0;   static constexpr int id = K_SPIN_RW; };
template <> struct KT<tbb::queuing_rw_mutex>         { static constexpr bool rw = true,  native = false; static constexpr int hook = 122; static constexpr int id = K_QUEUING_RW; };
template <> struct KT<tbb::rw_mutex>                 { static constexpr bool rw = true,  native = true;  static constexpr int hook = 0;   static constexpr int id = K_RW; };
template <> struct KT<tbb::speculative_spin_rw_mutex>{ static constexpr bool rw = true,  native = false; static constexpr int hook = 0;   static constexpr int id = K_SPEC_RW; };

enum Iface { IF_ACQ = 0, IF_CTOR = 1, IF_NATIVE = 2 };
enum Cls { C_X = 0, C_T = 1, C_U = 2, C_R = 3 };
static const char* cls_name[] = { "X", "T", "U", "R" };
enum Profile { P_HOT = 0, P_MIXED = 1, P_BLOCKING = 2, P_SLEEPY = 3, P_UPGRADES = 4 };
static const char* profile_name[] = { "hot", "mixed", "blocking-only", "sleepy", "upgrade-heavy" };
// what a thread is doing (published for the watchdog verdict)
enum OpState { S_NONE = 0, S_ACQ_W, S_ACQ_R, S_TRY_W, S_TRY_R, S_RELEASE, S_UPGRADE, S_DOWNGRADE, S_HARNESS_WAIT, S_BARRIER, S_DONE };
static const char* state_name[] = { "harness-code", "acquire(write)", "acquire(read)", "try_acquire(write)", "try_acquire(read)", "release",
                                    "upgrade_to_writer", "downgrade_to_reader", "harness-wait", "barrier", "finished" };

static constexpr int MAXT = 8;
static bool g_light = false;                      // tsan: no global stamps, no atomic RMW inside sections
static bool g_heap_nodes = false;                 // asan: every scoped_lock lives in its own heap block, so a neighbour touching a released queue node is reported
static std::atomic<uint64_t> g_seq{1};

// ------------------------------------------------------------------------------------------------ monitors
struct alignas(64) Slot { std::atomic<uint32_t> v{0}; };
struct LockMon {
    Slot slot[MAXT];                              // 0 outside, 1 in a read section, 2 in a write section (relaxed stores only)
    alignas(64) long a = 0; long b = 0;           // plain: writer sets a=v+1 ... b=v+1
    alignas(64) std::atomic<int> w{0}; std::atomic<int> r{0};   // heavy rounds only
    void reset() { for (auto& s : slot) s.v.store(0, std::memory_order_relaxed); a = b = 0; w.store(0, std::memory_order_relaxed); r.store(0, std::memory_order_relaxed); }
};
static inline long vload(const long& x) { return *(const volatile long*)&x; }
static inline void vstore(long& x, long v) { *(volatile long*)&x = v; }
static inline void cfence() { std::atomic_signal_fence(std::memory_order_seq_cst); }

struct Req { uint64_t call, enq, acq; uint8_t write, lock, tried; int8_t thread; };

struct alignas(64) ThreadShared {
    std::atomic<int> op{S_NONE}; std::atomic<int> oplock{0};
    // posted before the end barrier, read by thread 0 after it
    uint64_t sig = 0; long writes[2] = { 0, 0 }; long interesting = 0;
    std::vector<Req> reqs; std::vector<int> ev;
    // batch accumulators (merged by main after join)
    long st_acq = 0, st_contended = 0, st_try_ok = 0, st_try_fail = 0, st_upg_true = 0, st_upg_false = 0, st_conc_readers = 0,
         st_downgrades = 0, st_read_sections = 0, st_write_sections = 0, st_native = 0, st_ctor = 0, st_sleep_holds = 0, st_noop_trans = 0, st_txn = 0, st_deferred = 0, st_reupgrades = 0;
};

// reupgrade: may one hold contain upgrade -> downgrade -> upgrade? Always. (On queuing_rw_mutex the pattern used to strand a waiting
// upgrader - found by class R, repaired by fix 8d13147 - and was kept apart from the other classes until then.)
struct RoundParams { int cls, nlocks, profile, nops, wpct, trypct; bool heavy; int holder_mode, ntries, upgraders; bool reupgrade; bool reuse_objects = false; };

struct Batch {
    int kind = 0, nthreads = 2, nrounds = 0; uint64_t seed = 0; bool rw = false; int fifo_hook = 0;
    int only_cls = -1, only_profile = -1;
    Barrier bar;
    alignas(128) unsigned char lockbuf[2][512];
    LockMon mon[2];
    ThreadShared ts[MAXT];
    std::atomic<int> round{0};
    RoundParams rp{};
    // class T / U coordination (reset by thread 0 per round)
    alignas(64) std::atomic<int> flag_held{0}; std::atomic<int> done_count{0}; std::atomic<int> in_count{0};
    std::atomic<int> round_failed{0};
    // round results (thread 0)
    long fifo_pairs = 0, fifo_requests = 0, fifo_no_witness = 0, storms = 0, storms_overlapping = 0;
    long rounds_cls[4] = { 0, 0, 0, 0 }, rounds_profile[5] = { 0, 0, 0, 0, 0 }, rounds_heavy = 0, rounds_two_locks = 0;
    explicit Batch(int n) : nthreads(n), bar(n) {}

    std::string describe() const {
        Json j; j.obj(); j.kv("kind", kind_name[kind]); j.kv("class", cls_name[rp.cls]); j.kv("batch_seed", (unsigned long long)seed);
        j.kv("round", round.load()); j.kv("threads", nthreads); j.kv("locks", rp.nlocks); j.kv("profile", profile_name[rp.profile]);
        j.kv("ops_per_thread", rp.nops); j.kv("heavy_monitor", rp.heavy); j.kv("process_seed", (unsigned long long)result().seed);
        j.end_obj(); return j.s;
    }
    void fail(const char* what, const std::string& detail) {
        // Inside a hardware transaction (speculative mutexes) nothing may be reported: the report would be rolled back.
        // Abort it explicitly; the section is re-executed, finally under the real lock, and real holders report.
        if (_xtest()) _xabort(0xC8);
        result().stat("failed_checks");
        if (round_failed.fetch_add(1) != 0) return;          // one report per round
        std::string key = std::string("c08.") + cls_name[rp.cls] + "." + what;
        result().violation(key, std::string(kind_name[kind]) + ": " + detail + "\n" + rings_dump(6), describe());
    }
};
static std::atomic<Batch*> g_batch{nullptr};

// hook observer: queue-entry witness of the calling thread's current request
struct TlReq { const void* mutex = nullptr; const void* node = nullptr; uint64_t enq = 0; int hook = 0; };
static thread_local TlReq tl_req;
static void point_observer(int id, const void* obj, long arg) {
    TlReq& q = tl_req;
    if (id == q.hook && obj == q.mutex && (const void*)arg == q.node && q.enq == 0) q.enq = g_seq.fetch_add(1, std::memory_order_seq_cst);
}

// ------------------------------------------------------------------------------------------------ lock handle
static std::atomic<long> g_reused_objects{0};
template <class M> struct Lk {
    using S = typename M::scoped_lock;
    static constexpr bool RW = KT<M>::rw;
    alignas(64) unsigned char stackbuf[sizeof(S) + 64];
    unsigned char* buf = stackbuf;
    S* p = nullptr; M* m = nullptr; int iface = IF_ACQ; bool writer = true;
    // reuse: one scoped_lock object serves many requests (acquire / try_acquire -> release, again and again) instead of a freshly
    // constructed one per request: whatever a release leaves behind in the object (queue links of the queuing kinds) meets the next request
    bool reuse = false; S* idle = nullptr;
    Lk() { next_node(); }
    ~Lk() { if (idle) idle->~S(); if (buf != stackbuf) ::operator delete(buf, std::align_val_t(64)); }
    Lk(const Lk&) = delete; Lk& operator=(const Lk&) = delete;
    // called after every release / failed try: the node of the next request
    void next_node() {
        if (!g_heap_nodes || idle) return;
        if (buf != stackbuf) ::operator delete(buf, std::align_val_t(64));
        buf = static_cast<unsigned char*>(::operator new(sizeof(S) + 64, std::align_val_t(64)));
    }
    const void* node() const { return buf; }
    bool acquire(M& mm, bool write, bool try_, int ifc) {
        m = &mm; iface = ifc; writer = write;
        if (ifc == IF_NATIVE) {
            if constexpr (KT<M>::native) {
                if constexpr (RW) {
                    if (write) { if (try_) return mm.try_lock(); mm.lock(); return true; }
                    if (try_) return mm.try_lock_shared(); mm.lock_shared(); return true;
                } else { if (try_) return mm.try_lock(); mm.lock(); return true; }
            }
        }
        if (ifc == IF_CTOR && !try_) {
            if (idle) { idle->~S(); idle = nullptr; }
            if constexpr (RW) p = new (buf) S(mm, write); else p = new (buf) S(mm);
            return true;
        }
        iface = IF_ACQ;
        if (idle) { p = idle; idle = nullptr; g_reused_objects.fetch_add(1, std::memory_order_relaxed); } else p = new (buf) S();
        bool ok;
        if constexpr (RW) { if (try_) ok = p->try_acquire(mm, write); else { p->acquire(mm, write); ok = true; } }
        else { if (try_) ok = p->try_acquire(mm); else { p->acquire(mm); ok = true; } }
        if (!ok) { if (reuse) { idle = p; p = nullptr; } else { p->~S(); p = nullptr; next_node(); } }
        return ok;
    }
    bool upgrade() { if constexpr (RW) { writer = true; return p->upgrade_to_writer(); } return true; }
    void downgrade() { if constexpr (RW) { writer = false; p->downgrade_to_reader(); } }
    void release() {
        if (iface == IF_NATIVE) {
            if constexpr (KT<M>::native) {
                if constexpr (RW) { if (writer) m->unlock(); else m->unlock_shared(); } else m->unlock();
            }
            return;
        }
        if (iface == IF_CTOR) p->~S(); else { p->release(); if (reuse) { idle = p; p = nullptr; return; } p->~S(); }
        p = nullptr; next_node();
    }
};

// ------------------------------------------------------------------------------------------------ per-thread round context
struct Hold { int kind; unsigned arg; };   // 0 none, 1 spin, 2 yield, 3 sleep
static Hold pick_hold(Rng& r, int profile) {
    unsigned x = (unsigned)r.below(100);
    switch (profile) {
    case P_HOT: case P_BLOCKING: case P_UPGRADES: return x < 80 ? Hold{ 0, 0 } : x < 97 ? Hold{ 1, (unsigned)r.below(400) } : Hold{ 2, 0 };
    case P_MIXED: return x < 45 ? Hold{ 0, 0 } : x < 80 ? Hold{ 1, (unsigned)r.below(3000) } : x < 90 ? Hold{ 2, 0 } : Hold{ 3, 5 + (unsigned)r.below(250) };
    default: return x < 25 ? Hold{ 1, (unsigned)r.below(3000) } : x < 40 ? Hold{ 2, 0 } : Hold{ 3, 30 + (unsigned)r.below(900) };
    }
}
static inline void do_hold(const Hold& h) { if (h.kind == 1) spin_iters(h.arg); else if (h.kind == 2) sched_yield(); else if (h.kind == 3) sleep_us(h.arg); }

struct Ctx {
    Batch& B; int t; ThreadShared& me; Rng rng; const RoundParams& rp;
    uint64_t sig = 0;
    Ctx(Batch& b, int t_, uint64_t seed) : B(b), t(t_), me(b.ts[t_]), rng(seed), rp(b.rp) {}
    // Verdicts reached INSIDE a hardware transaction (speculative mutexes) cannot be reported from there: building the message and taking
    // the report lock abort the transaction, and the abort rolls the observation back - the section then re-runs under the real lock and
    // sees nothing. They are parked here as plain words (part of the transaction's write set: they survive exactly if it commits) and
    // reported after the lock has been released, i.e. after the commit.
    struct Deferred { const char* key; long x, y; int lock; } deferred[4]; int ndeferred = 0;
    void defer(const char* key, long x, long y, int lock) { if (ndeferred < 4) { deferred[ndeferred].key = key; deferred[ndeferred].x = x; deferred[ndeferred].y = y; deferred[ndeferred].lock = lock; ndeferred++; } }
    void flush_deferred() {
        for (int i = 0; i < ndeferred; i++) { me.st_deferred++; B.fail(deferred[i].key, std::string("observed by thread ") + std::to_string(t) + " inside a hardware transaction that committed (lock " + std::to_string(deferred[i].lock) + "): values " + std::to_string(deferred[i].x) + " / " + std::to_string(deferred[i].y)); }
        ndeferred = 0;
    }
#define CS_FAIL(key, x, y, lockno, msg) do { if (_xtest()) defer(key, (long)(x), (long)(y), lockno); else B.fail(key, msg); } while (0)
    void ev(int code, long v) { sig = mix(sig, (uint64_t)code * 1000003u + (uint64_t)v); if (me.ev.size() < 96) { me.ev.push_back(code); me.ev.push_back((int)v); } }
    void state(int s, int lock) { me.oplock.store(lock, std::memory_order_relaxed); me.op.store(s, std::memory_order_relaxed); }

    // is a conflicting section in progress on this lock right now? (call-time contention measure, evidence only)
    bool conflicting_holder(int lock, bool write) {
        LockMon& L = B.mon[lock];
        for (int i = 0; i < B.nthreads; i++) if (i != t) { uint32_t s = L.slot[i].v.load(std::memory_order_relaxed); if (s == 2 || (s == 1 && write)) return true; }
        return false;
    }
    void scan_write(LockMon& L, const char* when) {
        for (int i = 0; i < B.nthreads; i++) if (i != t) {
            uint32_t s = L.slot[i].v.load(std::memory_order_relaxed);
            if (s) CS_FAIL("writer-not-exclusive", i, s, (int)(&L - B.mon), std::string("thread ") + std::to_string(t) + " is in a write section (" + when + ") while thread " + std::to_string(i) + " is in a " + (s == 2 ? "write" : "read") + " section of the same lock");
        }
    }
    void scan_read(LockMon& L, const char* when, bool count) {
        int others = 0;
        for (int i = 0; i < B.nthreads; i++) if (i != t) {
            uint32_t s = L.slot[i].v.load(std::memory_order_relaxed);
            if (s == 2) CS_FAIL("reader-with-writer", i, s, (int)(&L - B.mon), std::string("thread ") + std::to_string(t) + " is in a read section (" + when + ") while thread " + std::to_string(i) + " is in a write section of the same lock");
            else if (s == 1) others++;
        }
        if (count && others) { me.st_conc_readers++; me.interesting++; }
    }
    // write section; returns the version found at entry (the section leaves version entry+1)
    template <class F> long cs_write(int lock, F&& hold) {
        LockMon& L = B.mon[lock];
        L.slot[t].v.store(2, std::memory_order_relaxed); cfence();
        if (_xtest()) me.st_txn++;
        if (rp.heavy) {
            int pw = L.w.fetch_add(1), pr = L.r.load();
            if (pw != 0 || pr != 0) CS_FAIL("writer-not-exclusive", pw, pr, lock, "writer entered with writers=" + std::to_string(pw) + " readers=" + std::to_string(pr) + " already inside (atomic holder counters)");
        }
        scan_write(L, "entry");
        long va = vload(L.a), vb = vload(L.b);
        if (va != vb) CS_FAIL("write-section-interrupted", va, vb, lock, "writer found a=" + std::to_string(va) + " b=" + std::to_string(vb) + ": another write section is in progress or its writes are not visible");
        vstore(L.a, va + 1);
        hold();
        scan_write(L, "exit");
        long a2 = vload(L.a), b2 = vload(L.b);
        if (a2 != va + 1 || b2 != vb) CS_FAIL("writer-not-exclusive", a2, b2, lock, "protected words changed under the write lock: a " + std::to_string(va + 1) + "->" + std::to_string(a2) + " b " + std::to_string(vb) + "->" + std::to_string(b2));
        vstore(L.b, va + 1);
        if (rp.heavy) L.w.fetch_sub(1);
        cfence(); L.slot[t].v.store(0, std::memory_order_relaxed);
        me.writes[lock]++; me.st_write_sections++;
        return va;
    }
    // read section; returns the version seen
    template <class F> long cs_read(int lock, F&& hold) {
        LockMon& L = B.mon[lock];
        L.slot[t].v.store(1, std::memory_order_relaxed); cfence();
        if (_xtest()) me.st_txn++;
        if (rp.heavy) { L.r.fetch_add(1); int pw = L.w.load(); if (pw != 0) CS_FAIL("reader-with-writer", pw, 0, lock, "reader entered with writers=" + std::to_string(pw) + " inside (atomic holder counters)"); }
        scan_read(L, "entry", true);
        long vb = vload(L.b), va = vload(L.a);
        if (va != vb) CS_FAIL("reader-with-writer", va, vb, lock, "reader found a=" + std::to_string(va) + " b=" + std::to_string(vb) + ": a write section is in progress");
        hold();
        scan_read(L, "exit", false);
        long a2 = vload(L.a), b2 = vload(L.b);
        if (a2 != va || b2 != vb) CS_FAIL("reader-with-writer", a2, b2, lock, "protected words changed under the read lock: a " + std::to_string(va) + "->" + std::to_string(a2) + " b " + std::to_string(vb) + "->" + std::to_string(b2));
        if (rp.heavy) L.r.fetch_sub(1);
        cfence(); L.slot[t].v.store(0, std::memory_order_relaxed);
        me.st_read_sections++;
        return va;
    }
};

// acquire with bookkeeping: states, stamps, witness. Returns false for a failed try.
template <class M> static bool do_acquire(Ctx& c, Lk<M>& lk, M& m, int lock, bool write, bool try_, int iface) {
    constexpr int HOOK = KT<M>::hook;
    bool stamps = HOOK != 0 && c.rp.heavy && !g_light;
    bool contended = c.conflicting_holder(lock, write);
    Req rq{}; rq.write = write; rq.lock = (uint8_t)lock; rq.tried = try_; rq.thread = (int8_t)c.t;
    if (stamps) {
        TlReq& q = tl_req; q.hook = HOOK; q.mutex = &m; q.node = lk.node(); q.enq = 0;
        rq.call = g_seq.fetch_add(1, std::memory_order_seq_cst);
    }
    c.state(try_ ? (write ? S_TRY_W : S_TRY_R) : (write ? S_ACQ_W : S_ACQ_R), lock);
    bool ok = lk.acquire(m, write, try_, iface);
    c.state(S_NONE, lock);
    if (stamps) {
        if (ok) { rq.acq = g_seq.fetch_add(1, std::memory_order_seq_cst); rq.enq = tl_req.enq; c.me.reqs.push_back(rq); }
        tl_req.hook = 0;
    }
    if (ok) {
        c.me.st_acq++;
        if (iface == IF_NATIVE) c.me.st_native++; else if (iface == IF_CTOR && !try_) c.me.st_ctor++;
        if (try_) c.me.st_try_ok++;
        else if (contended) { c.me.st_contended++; c.me.interesting++; }
    } else { c.me.st_try_fail++; c.me.interesting++; }
    return ok;
}
template <class M> static void do_release(Ctx& c, Lk<M>& lk, int lock) { c.state(S_RELEASE, lock); lk.release(); c.state(S_NONE, lock); if (c.ndeferred) c.flush_deferred(); }

template <class M> static M& lock_at(Batch& B, int i) { return *reinterpret_cast<M*>(B.lockbuf[i]); }

// chain after a successful acquisition in mode `write`: section, transitions, release
template <class M> static void run_chain(Ctx& c, Lk<M>& lk, int lock, bool write, int ntrans, int force_trans) {
    constexpr bool RW = KT<M>::rw;
    Rng& r = c.rng;
    auto hold = [&] { Hold h = pick_hold(r, c.rp.profile); if (h.kind == 3) c.me.st_sleep_holds++; do_hold(h); };
    bool w = write, downgraded = false;
    long v;   // version this thread knows to be current while it keeps holding
    if (w) { long e = c.cs_write(lock, hold); v = e + 1; c.ev(10, e); } else { v = c.cs_read(lock, hold); c.ev(11, v); }
    if constexpr (RW) {
        for (int k = 0; k < ntrans; k++) {
            bool up = force_trans ? (force_trans == 1) : (w ? r.chance(1, 6) : r.chance(5, 6));
            if (up && !w && downgraded && !c.rp.reupgrade) break;
            if (up) {
                bool was_writer = w;
                c.state(S_UPGRADE, lock); bool ok = lk.upgrade(); c.state(S_NONE, lock);
                w = true;
                long e = c.cs_write(lock, hold);
                if (was_writer) {
                    c.me.st_noop_trans++;
                    if (e != v) c.B.fail("writer-not-exclusive", "version changed from " + std::to_string(v) + " to " + std::to_string(e) + " while this thread held the write lock (across a no-op upgrade_to_writer)");
                } else {
                    if (ok) c.me.st_upg_true++; else { c.me.st_upg_false++; c.me.interesting++; }
                    if (downgraded) c.me.st_reupgrades++;
                    if (ok && e != v) c.B.fail("upgrade-true-but-writer-intervened", "upgrade_to_writer returned true, but the version went from " + std::to_string(v) + " (read section) to " + std::to_string(e) + " (write section): another writer ran in between");
                }
                v = e + 1; c.ev(ok ? 12 : 13, e);
            } else {
                bool was_reader = !w;
                c.state(S_DOWNGRADE, lock); lk.downgrade(); c.state(S_NONE, lock);
                w = false;
                long e = c.cs_read(lock, hold);
                if (was_reader) c.me.st_noop_trans++; else { c.me.st_downgrades++; downgraded = true; }
                if (e != v) c.B.fail("writer-across-downgrade", "version went from " + std::to_string(v) + " to " + std::to_string(e) + " across downgrade_to_reader: a writer got in");
                c.ev(14, e);
            }
        }
    }
    do_release(c, lk, lock);
}

template <class M> static void run_x(Ctx& c) {
    constexpr bool RW = KT<M>::rw;
    Rng& r = c.rng; const RoundParams& rp = c.rp;
    Lk<M> lk; lk.reuse = rp.reuse_objects;
    for (int i = 0; i < rp.nops; i++) {
        int lock = rp.nlocks == 2 ? (int)r.below(2) : 0;
        bool write = RW ? r.chance((unsigned)rp.wpct, 100) : true;
        bool try_ = r.chance((unsigned)rp.trypct, 100);
        int iface = IF_ACQ; unsigned x = (unsigned)r.below(6);
        if (KT<M>::native && x < 2) iface = IF_NATIVE; else if (!try_ && x < 4) iface = IF_CTOR;
        int ntrans = 0, force = 0;
        if (RW && iface != IF_NATIVE) {
            if (rp.cls == C_R) ntrans = r.chance(9, 10) ? 2 + (int)r.below(3) : 0;
            else if (rp.profile == P_UPGRADES) { ntrans = r.chance(9, 10) ? 1 + (int)r.below(2) : 0; }
            else if (r.chance(1, 2)) ntrans = 1 + (int)r.below(3);
        }
        M& m = lock_at<M>(c.B, lock);
        if (do_acquire(c, lk, m, lock, write, try_, iface)) run_chain(c, lk, lock, write, ntrans, force);
        else c.ev(try_ ? 20 : 21, write);
        unsigned g = (unsigned)r.below(8);
        if (g == 0) spin_iters((unsigned)r.below(600)); else if (g == 1 && rp.profile != P_HOT) sched_yield();
        if ((i & 15) == 15) progress();
    }
}

// class T: thread 0 holds; the others try
template <class M> static void run_t(Ctx& c) {
    constexpr bool RW = KT<M>::rw;
    Batch& B = c.B; const RoundParams& rp = c.rp; Rng& r = c.rng;
    M& m = lock_at<M>(B, 0);
    Lk<M> lk;
    bool holder_writes = rp.holder_mode == 1;
    if (c.t == 0) {
        int iface = (KT<M>::native && r.chance(1, 3)) ? IF_NATIVE : (r.chance(1, 2) ? IF_CTOR : IF_ACQ);
        do_acquire(c, lk, m, 0, holder_writes, false, iface);
        auto wait_all = [&] {
            B.flag_held.store(1, std::memory_order_release);
            c.state(S_HARNESS_WAIT, 0);
            int spins = 0;
            while (B.done_count.load(std::memory_order_acquire) < B.nthreads - 1) { if (++spins > 100) sched_yield(); else _mm_pause(); }
            c.state(S_NONE, 0);
        };
        if (holder_writes) c.ev(10, c.cs_write(0, wait_all)); else c.ev(11, c.cs_read(0, wait_all));
        do_release(c, lk, 0);
        return;
    }
    c.state(S_HARNESS_WAIT, 0);
    { int spins = 0; while (!B.flag_held.load(std::memory_order_acquire)) { if (++spins > 100) sched_yield(); else _mm_pause(); } }
    c.state(S_NONE, 0);
    for (int k = 0; k < rp.ntries; k++) {
        bool write = RW ? r.chance(1, 2) : true;
        int iface = (KT<M>::native && r.chance(1, 2)) ? IF_NATIVE : IF_ACQ;
        bool ok = do_acquire(c, lk, m, 0, write, true, iface);
        if (ok) {
            // the holder is inside its section for certain (it leaves only after done_count reached nthreads-1)
            if (holder_writes || write) {
                B.fail("try-true-under-holder", std::string("try_acquire(") + (write ? "write" : "read") + ") returned true while thread 0 holds the lock as " + (holder_writes ? "writer" : "reader") + " and cannot have released it");
                do_release(c, lk, 0);
            } else { c.ev(11, c.cs_read(0, [] {})); do_release(c, lk, 0); }
        } else c.ev(20, write);
        if (r.chance(1, 3)) spin_iters((unsigned)r.below(300));
    }
    B.done_count.fetch_add(1, std::memory_order_release);
}

// class U: upgrade storm
template <class M> static void run_u(Ctx& c) {
    constexpr bool RW = KT<M>::rw;
    if constexpr (!RW) { (void)c; return; } else {
        Batch& B = c.B; const RoundParams& rp = c.rp; Rng& r = c.rng;
        M& m = lock_at<M>(B, 0);
        Lk<M> lk;
        int k = rp.upgraders;
        if (c.t < k) {
            do_acquire(c, lk, m, 0, false, false, r.chance(1, 2) ? IF_CTOR : IF_ACQ);
            auto wait_all = [&] {
                B.in_count.fetch_add(1, std::memory_order_acq_rel);
                c.state(S_HARNESS_WAIT, 0);
                int spins = 0;
                while (B.in_count.load(std::memory_order_acquire) < k) { if (++spins > 100) sched_yield(); else _mm_pause(); }
                c.state(S_NONE, 0);
                if (r.chance(1, 3)) spin_iters((unsigned)r.below(500));
            };
            long v = c.cs_read(0, wait_all); c.ev(11, v);
            c.state(S_UPGRADE, 0); bool ok = lk.upgrade(); c.state(S_NONE, 0);
            auto hold = [&] { Hold h = pick_hold(r, P_HOT); do_hold(h); };
            long e = c.cs_write(0, hold);
            if (ok) c.me.st_upg_true++; else { c.me.st_upg_false++; c.me.interesting++; }
            if (ok && e != v) B.fail("upgrade-true-but-writer-intervened", "storm of " + std::to_string(k) + " upgraders: upgrade_to_writer returned true, but the version went from " + std::to_string(v) + " to " + std::to_string(e));
            c.ev(ok ? 12 : 13, e);
            long cur = e + 1;
            if (r.chance(1, 2)) {
                c.state(S_DOWNGRADE, 0); lk.downgrade(); c.state(S_NONE, 0);
                long e2 = c.cs_read(0, hold); c.me.st_downgrades++;
                if (e2 != cur) B.fail("writer-across-downgrade", "version went from " + std::to_string(cur) + " to " + std::to_string(e2) + " across downgrade_to_reader");
                c.ev(14, e2);
            }
            do_release(c, lk, 0);
        } else {
            // queue up behind the storm
            c.state(S_HARNESS_WAIT, 0);
            { int spins = 0; while (B.in_count.load(std::memory_order_acquire) < k) { if (++spins > 100) sched_yield(); else _mm_pause(); } }
            c.state(S_NONE, 0);
            int n = 1 + (int)r.below(4);
            for (int i = 0; i < n; i++) {
                bool write = r.chance(2, 3); bool try_ = r.chance(1, 4);
                if (do_acquire(c, lk, m, 0, write, try_, IF_ACQ)) run_chain(c, lk, 0, write, r.chance(1, 3) ? 1 : 0, 0);
                else c.ev(20, write);
            }
        }
    }
}

// ------------------------------------------------------------------------------------------------ round set-up / check (thread 0)
static RoundParams make_params(Batch& B, uint64_t rseed) {
    Rng r(rseed); RoundParams p{};
    unsigned x = (unsigned)r.below(100);
    p.cls = B.rw ? (x < 78 ? C_X : x < 86 ? C_T : C_U) : (x < 88 ? C_X : C_T);
    if (B.only_cls >= 0) p.cls = B.only_cls;
    if (p.cls == C_U && (!B.rw || B.nthreads < 2)) p.cls = C_X;
    if (p.cls == C_R && B.kind != K_QUEUING_RW) p.cls = C_X;
    p.reuse_objects = r.chance(1, 2);
    p.reupgrade = true;   // queuing_rw_mutex used to strand a waiting upgrader here (repaired in /repo: fix 8d13147); every class produces the pattern now
    p.nlocks = ((p.cls == C_X || p.cls == C_R) && r.chance(1, 4)) ? 2 : 1;
    bool sleeper = B.kind == K_MUTEX || B.kind == K_RW;
    unsigned y = (unsigned)r.below(100);
    if (sleeper) p.profile = y < 35 ? P_HOT : y < 60 ? P_MIXED : y < 75 ? P_BLOCKING : y < 90 ? P_SLEEPY : P_UPGRADES;
    else p.profile = y < 40 ? P_HOT : y < 62 ? P_MIXED : y < 84 ? P_BLOCKING : y < 87 ? P_SLEEPY : P_UPGRADES;
    if (p.profile == P_UPGRADES && !B.rw) p.profile = P_HOT;
    if (p.cls == C_R && y < 70) p.profile = P_UPGRADES;
    if (B.only_profile >= 0) p.profile = B.only_profile;
    p.nops = p.profile == P_SLEEPY ? 2 + (int)r.below(4) : (r.chance(1, 6) ? 12 + (int)r.below(28) : 3 + (int)r.below(10));
    p.wpct = p.profile == P_UPGRADES ? (int)r.below(15) : (int)r.pick(std::vector<int>{ 15, 35, 50, 70, 90 });
    p.trypct = p.profile == P_BLOCKING ? 0 : (int)r.pick(std::vector<int>{ 0, 10, 25, 50 });
    p.heavy = !g_light && r.chance(1, 2);
    if (B.fifo_hook && !g_light && p.profile == P_BLOCKING) p.heavy = true;     // queue-order dense rounds carry stamps
    p.holder_mode = B.rw ? (int)r.below(2) : 1;
    p.ntries = 1 + (int)r.below(6);
    p.upgraders = 2 + (int)r.below((uint64_t)(B.nthreads - 1));                // 2..nthreads
    if (p.upgraders > B.nthreads) p.upgraders = B.nthreads;
    return p;
}

// certain-order queue oracle over the requests of one lock
static void check_fifo(Batch& B, std::vector<Req>& all) {
    if (all.empty()) return;
    std::vector<const Req*> bycall, byenq;
    for (auto& q : all) { bycall.push_back(&q); if (q.enq) byenq.push_back(&q); else if (!q.tried) B.fifo_no_witness++; }
    std::sort(bycall.begin(), bycall.end(), [](const Req* x, const Req* y) { return x->call < y->call; });
    std::sort(byenq.begin(), byenq.end(), [](const Req* x, const Req* y) { return x->enq < y->enq; });
    size_t j = 0; const Req* max_any = nullptr; const Req* max_w = nullptr; long n_any = 0, n_w = 0;
    for (const Req* b : bycall) {
        while (j < byenq.size() && byenq[j]->enq < b->call) {
            const Req* a = byenq[j++];
            n_any++; if (!max_any || a->acq > max_any->acq) max_any = a;
            if (a->write) { n_w++; if (!max_w || a->acq > max_w->acq) max_w = a; }
        }
        const Req* a = b->write ? max_any : max_w;       // a writer conflicts with everything, a reader with writers
        B.fifo_pairs += b->write ? n_any : n_w;
        if (a && a->acq > b->acq) {
            B.fail("fifo-overtaken", std::string("request B (thread ") + std::to_string(b->thread) + ", " + (b->write ? "write" : "read") + (b->tried ? ", try_acquire" : "") +
                   ", called at stamp " + std::to_string(b->call) + ", granted at " + std::to_string(b->acq) + ") overtook request A (thread " + std::to_string(a->thread) + ", " +
                   (a->write ? "write" : "read") + ", in the queue since stamp " + std::to_string(a->enq) + ", granted at " + std::to_string(a->acq) + ")");
            return;
        }
    }
    B.fifo_requests += (long)all.size();
}

template <class M> static void setup_round(Batch& B, int round) {
    B.round.store(round, std::memory_order_relaxed);
    B.rp = make_params(B, mix(B.seed, 0x5000 + round));
    for (int i = 0; i < B.rp.nlocks; i++) { new (B.lockbuf[i]) M(); B.mon[i].reset(); }
    B.flag_held.store(0); B.done_count.store(0); B.in_count.store(0); B.round_failed.store(0);
    static const std::vector<int> ids = { 120, 121, 122, 123, 124, 125, 50, 51, 52, 53, 54, 55, 63, 64 };
    Rng pr(mix(B.seed, 0x7000 + round));
    if (pr.chance(1, 3)) perturb_random(pr, ids);
}

static const char* ev_name(int code) {
    switch (code) { case 10: return "W@"; case 11: return "R@"; case 12: return "upgrade:true,W@"; case 13: return "upgrade:false,W@"; case 14: return "downgrade,R@";
                    case 20: return "try-failed:"; default: return "?"; }
}

template <class M> static void finish_round(Batch& B, Result& R) {
    const RoundParams& rp = B.rp;
    // lost update / visibility: every write section bumped the version exactly once
    for (int l = 0; l < rp.nlocks; l++) {
        long sum = 0; for (int t = 0; t < B.nthreads; t++) sum += B.ts[t].writes[l];
        long a = vload(B.mon[l].a), b = vload(B.mon[l].b);
        if (a != sum || b != sum) B.fail("lost-update", "lock " + std::to_string(l) + ": " + std::to_string(sum) + " write sections ran but the protected counters read a=" + std::to_string(a) + " b=" + std::to_string(b));
    }
    if (KT<M>::hook && rp.heavy && !g_light) {
        for (int l = 0; l < rp.nlocks; l++) {
            std::vector<Req> all;
            for (int t = 0; t < B.nthreads; t++) for (auto& q : B.ts[t].reqs) if (q.lock == l) all.push_back(q);
            check_fifo(B, all);
        }
    }
    long interesting = 0; uint64_t h = mix(B.kind * 16 + rp.cls, B.nthreads * 4 + rp.nlocks);
    for (int t = 0; t < B.nthreads; t++) { interesting += B.ts[t].interesting; h = mix(h, B.ts[t].sig); }
    if (rp.cls == C_U) { B.storms++; long f = 0; for (int t = 0; t < rp.upgraders; t++) for (size_t i = 0; i + 1 < B.ts[t].ev.size(); i += 2) if (B.ts[t].ev[i] == 13) f++; if (f) B.storms_overlapping++; }
    R.scenarios++;
    B.rounds_cls[rp.cls]++; B.rounds_profile[rp.profile]++; if (rp.heavy) B.rounds_heavy++; if (rp.nlocks == 2) B.rounds_two_locks++;
    if (interesting > 0) {
        R.nontrivial++; R.signature(h);
        if (R.want_sample() && interesting >= 3 && (R.samples.size() != 1 || rp.cls != C_X) && !B.round_failed.load()) {
            Json j; j.obj(); j.kv("kind", kind_name[B.kind]); j.kv("class", cls_name[rp.cls]); j.kv("threads", B.nthreads); j.kv("locks", rp.nlocks);
            j.kv("profile", profile_name[rp.profile]); j.kv("contended_or_refused_operations", interesting);
            j.kv("legend", "X@v = section of kind X entered at version v of the protected counter (interleaving witness)");
            j.key("per_thread").arr();
            for (int t = 0; t < B.nthreads; t++) { std::string s; auto& e = B.ts[t].ev; for (size_t i = 0; i + 1 < e.size() && i < 40; i += 2) { s += ev_name(e[i]); s += std::to_string(e[i + 1]); s += ' '; } j.val(s); }
            j.end_arr(); j.end_obj(); R.sample(j.s);
        }
    }
    for (int i = 0; i < rp.nlocks; i++) lock_at<M>(B, i).~M();
    progress();
}

template <class M> static void batch_thread(Batch& B, int t, Result& R) {
    ThreadShared& me = B.ts[t];
    for (int round = 0; round < B.nrounds; round++) {
        if (t == 0) setup_round<M>(B, round);
        me.op.store(S_BARRIER, std::memory_order_relaxed);
        B.bar.wait();
        me.op.store(S_NONE, std::memory_order_relaxed);
        me.sig = 0; me.writes[0] = me.writes[1] = 0; me.interesting = 0; me.reqs.clear(); me.ev.clear();
        {
            Ctx c(B, t, mix(mix(B.seed, 0x9000 + round), t));
            switch (B.rp.cls) { case C_X: case C_R: run_x<M>(c); break; case C_T: run_t<M>(c); break; default: run_u<M>(c); }
            me.sig = c.sig;
        }
        progress();
        me.op.store(S_BARRIER, std::memory_order_relaxed);
        B.bar.wait();
        me.op.store(S_NONE, std::memory_order_relaxed);
        if (t == 0) finish_round<M>(B, R);
    }
    me.op.store(S_DONE, std::memory_order_relaxed);
}

template <class M> static void run_batch(Batch& B, Result& R) {
    static_assert(sizeof(M) <= sizeof(B.lockbuf[0]) && alignof(M) <= 128, "lock buffer too small");
    B.rw = KT<M>::rw; B.fifo_hook = KT<M>::hook; B.kind = KT<M>::id;
    g_batch.store(&B);
    std::vector<std::thread> th;
    for (int t = 0; t < B.nthreads; t++) th.emplace_back([&B, &R, t] { batch_thread<M>(B, t, R); });
    for (auto& x : th) x.join();
    g_batch.store(nullptr);
    perturb().clear();
}

std::vector<HookThread*>* volatile g_keep_reachable = nullptr;

// Deterministic reproducer (--repro reupgrade): reader A upgrades (wins), downgrades and upgrades again while reader B is
// waiting inside its own upgrade_to_writer. With TBB_USE_ASSERT the second upgrade aborts in queuing_rw_mutex.cpp
// ("n_state & (STATE_WRITER | STATE_UPGRADE_WAITING)", B is in STATE_UPGRADE_LOSER); release builds must keep the property.
static void repro_reupgrade(Result& R, long rounds) {
    for (long i = 0; i < rounds; i++) {
        tbb::queuing_rw_mutex m; std::atomic<int> stage{0}; long a = 0, b = 0; std::atomic<int> bad{0};
        bool u1 = false, u2 = false, ub = false;
        std::thread tb([&] {
            while (stage.load() < 1) sched_yield();
            tbb::queuing_rw_mutex::scoped_lock l(m, false);       // B queues behind A as a reader
            long v = vload(a);
            stage.store(2);
            while (stage.load() < 3) sched_yield();
            ub = l.upgrade_to_writer();                             // waits for A
            long e = vload(a); if (ub && e != v) bad++;
            if (vload(b) != e) bad++;
            vstore(a, e + 1); vstore(b, e + 1);
        });
        {
            tbb::queuing_rw_mutex::scoped_lock l(m, false); stage.store(1);
            while (stage.load() < 2) sched_yield();
            long v = vload(a);
            stage.store(3);
            u1 = l.upgrade_to_writer();                             // A is first in the queue; B ends up in UPGRADE_WAITING
            if (u1 && vload(a) != v) bad++;
            vstore(a, v + 1); sleep_us(3000 + (unsigned)(i % 5) * 1000); vstore(b, v + 1);
            l.downgrade_to_reader();                                // marks B UPGRADE_LOSER
            if (vload(a) != v + 1 || vload(b) != v + 1) bad++;
            u2 = l.upgrade_to_writer();                             // next is in STATE_UPGRADE_LOSER
            if (vload(a) != v + 1) bad++;                          // A held the lock all the time: nobody may have written
            vstore(a, v + 2); vstore(b, v + 2);
        }
        tb.join();
        R.scenarios++; R.nontrivial++; R.signature(mix(0xBEEF, (uint64_t)u1 * 4 + u2 * 2 + ub + i * 8));
        R.stat("repro_reupgrade_rounds"); if (u2) R.stat("repro_second_upgrade_true"); if (!ub) R.stat("repro_waiting_upgrader_lost");
        if (bad.load() || vload(a) != 3 || vload(b) != 3)
            R.violation("c08.R.reupgrade-repro", "upgrade -> downgrade -> upgrade with a waiting upgrader broke exclusion or the upgrade result (bad=" + std::to_string(bad.load()) + " a=" + std::to_string(a) + " b=" + std::to_string(b) + ")", "{\"repro\":\"reupgrade\"}");
        progress();
    }
}

static bool cpu_has_rtm() {
    FILE* f = fopen("/proc/cpuinfo", "r"); if (!f) return false;
    char line[8192]; bool has = false;
    while (fgets(line, sizeof line, f)) if (!strncmp(line, "flags", 5)) { has = strstr(line, " rtm ") || strstr(line, " rtm\n"); break; }
    fclose(f); return has;
}

int main(int argc, char** argv) {
    Args a = standard_init(argc, argv, "c08");
    Result& R = result();
    long cases = a.num("cases", 2000);
    g_light = (R.variant == "tsan") || a.has("light");
    g_heap_nodes = (R.variant == "asan") || a.has("heapnodes");
    int only_kind = -1; std::string ks = a.str("kind", "");
    for (int k = 0; k < K_N; k++) if (ks == kind_name[k]) only_kind = k;
    if (!ks.empty() && only_kind < 0) { fprintf(stderr, "unknown --kind %s\n", ks.c_str()); return 2; }
    int only_cls = -1; std::string cs = a.str("cls", ""); for (int k = 0; k < 4; k++) if (cs == cls_name[k]) only_cls = k;
    if (only_cls == C_R) only_kind = K_QUEUING_RW;
    int only_profile = -1; std::string ps = a.str("profile", ""); for (int k = 0; k < 5; k++) if (ps == profile_name[k]) only_profile = k;
    int maxthreads = (int)a.num("threads", MAXT); if (maxthreads > MAXT) maxthreads = MAXT; if (maxthreads < 2) maxthreads = 2;
    tbb::global_control gc(tbb::global_control::max_allowed_parallelism, 16);
    set_point_observer(point_observer);
    Rng top(mix(R.seed, 0xC08));
    bool rtm = cpu_has_rtm();
    R.stat("cpu_has_rtm", rtm ? 1 : 0);
    R.stat("processes", 1);

    WatchdogCfg wc;
    if (only_cls == C_R) wc.hard_limit_s = 400;     // spinning waiters on a loaded machine need long to burn the spin-stall CPU budget
    watchdog_start(wc, [&](const HangInfo& hi) {
        Batch* B = g_batch.load();
        std::string d = "no progress for " + std::to_string(hi.stalled_for) + " s; ";
        int in_lib = 0, in_harness_code = 0, blocked_acq = 0, in_try = 0;
        if (B) {
            d += std::string(kind_name[B->kind]) + " class " + cls_name[B->rp.cls] + " round " + std::to_string(B->round.load()) + "; threads:";
            for (int t = 0; t < B->nthreads; t++) {
                int s = B->ts[t].op.load(); d += " [" + std::to_string(t) + ": " + state_name[s] + (s >= S_ACQ_W && s <= S_DOWNGRADE ? " lock " + std::to_string(B->ts[t].oplock.load()) : "") + "]";
                if (s >= S_ACQ_W && s <= S_DOWNGRADE) in_lib++;
                if (s == S_ACQ_W || s == S_ACQ_R) blocked_acq++;
                if (s == S_TRY_W || s == S_TRY_R) in_try++;
                if (s == S_NONE) in_harness_code++;
            }
            for (int l = 0; l < B->rp.nlocks; l++) {
                int ws = 0, rs = 0; for (int t = 0; t < B->nthreads; t++) { uint32_t s = B->mon[l].slot[t].v.load(); ws += s == 2; rs += s == 1; }
                d += "; lock " + std::to_string(l) + ": sections in progress writers=" + std::to_string(ws) + " readers=" + std::to_string(rs);
            }
            d += "; blocked acquirers=" + std::to_string(blocked_acq) + " threads inside try_acquire=" + std::to_string(in_try);
        }
        d += "\nOS threads: " + hi.threads + "\n" + rings_dump(10);
        bool verdict = (hi.quiescent || hi.spin_stall) && B && in_lib > 0 && in_harness_code == 0;
        if (!verdict) { R.inconclusive++; fprintf(stderr, "[c08] watchdog: inconclusive stall\n%s\n", d.c_str()); R.finish_and_exit(4); }
        std::string key = std::string("c08.") + cls_name[B->rp.cls] + (hi.quiescent ? ".hang.quiescent" : ".hang.spin-stall");
        R.violation(key, d.substr(0, 1500), B->describe());
        R.finish_and_exit(3);
    });

    if (a.str("repro", "") == "reupgrade") { repro_reupgrade(R, cases); watchdog_stop(); R.write(); return 0; }

    long done = 0;
    long acc[16] = { 0 };
    long fifo_pairs = 0, fifo_requests = 0, fifo_no_witness = 0, storms = 0, storms_over = 0;
    while (done < cases) {
        int kind = only_kind >= 0 ? only_kind : (int)top.below(K_N);
        // TSan does not model hardware transactions: sections run under a speculative mutex inside an RTM transaction
        // look like unsynchronised accesses to it. The speculative kinds are not run in that variant.
        if (R.variant == "tsan" && rtm && (kind == K_SPEC || kind == K_SPEC_RW)) { if (only_kind >= 0) break; continue; }
        unsigned x = (unsigned)top.below(16);
        int nthreads = x < 5 ? 2 : x < 9 ? 3 : x < 14 ? 4 : 5 + (int)top.below(4);
        if (nthreads > maxthreads) nthreads = maxthreads;
        std::unique_ptr<Batch> B(new Batch(nthreads));
        B->seed = top.next(); B->only_cls = only_cls; B->only_profile = only_profile;
        B->nrounds = (int)std::min<long>(cases - done, 30 + (long)top.below(120));
        switch (kind) {
        case K_SPIN: run_batch<tbb::spin_mutex>(*B, R); break;
        case K_QUEUING: run_batch<tbb::queuing_mutex>(*B, R); break;
        case K_MUTEX: run_batch<tbb::mutex>(*B, R); break;
        case K_SPEC: run_batch<tbb::speculative_spin_mutex>(*B, R); break;
        case K_SPIN_RW: run_batch<tbb::spin_rw_mutex>(*B, R); break;
        case K_QUEUING_RW: run_batch<tbb::queuing_rw_mutex>(*B, R); break;
        case K_RW: run_batch<tbb::rw_mutex>(*B, R); break;
        default: run_batch<tbb::speculative_spin_rw_mutex>(*B, R); break;
        }
        done += B->nrounds;
        long k_acq = 0, k_cont = 0;
        for (int t = 0; t < B->nthreads; t++) {
            ThreadShared& s = B->ts[t];
            long v[16] = { s.st_acq, s.st_contended, s.st_try_ok, s.st_try_fail, s.st_upg_true, s.st_upg_false, s.st_conc_readers, s.st_downgrades,
                           s.st_read_sections, s.st_write_sections, s.st_native, s.st_ctor, s.st_sleep_holds, s.st_noop_trans, s.st_txn, s.st_reupgrades };
            for (int i = 0; i < 16; i++) acc[i] += v[i];
            k_acq += s.st_acq; k_cont += s.st_contended + s.st_try_fail; if (s.st_deferred) R.stat("verdicts_deferred_until_after_a_committed_transaction", s.st_deferred);
        }
        R.stat(std::string("acquisitions.") + kind_name[kind], k_acq);
        R.stat(std::string("contended_or_refused.") + kind_name[kind], k_cont);
        R.stat(std::string("rounds.") + kind_name[kind], B->nrounds);
        for (int i = 0; i < 4; i++) if (B->rounds_cls[i]) R.stat(std::string("rounds.class_") + cls_name[i], B->rounds_cls[i]);
        for (int i = 0; i < 5; i++) if (B->rounds_profile[i]) R.stat(std::string("rounds.profile_") + profile_name[i], B->rounds_profile[i]);
        R.stat("rounds.heavy_monitor", B->rounds_heavy); R.stat("rounds.two_locks", B->rounds_two_locks);
        R.stat_max("max_threads", B->nthreads);
        if (kind == K_QUEUING) { R.stat("fifo_pairs.queuing_mutex", B->fifo_pairs); R.stat("fifo_requests.queuing_mutex", B->fifo_requests); }
        if (kind == K_QUEUING_RW) { R.stat("fifo_pairs.queuing_rw_mutex", B->fifo_pairs); R.stat("fifo_requests.queuing_rw_mutex", B->fifo_requests); }
        fifo_pairs += B->fifo_pairs; fifo_requests += B->fifo_requests; fifo_no_witness += B->fifo_no_witness; storms += B->storms; storms_over += B->storms_overlapping;
    }
    watchdog_stop();
    static const char* names[16] = { "acquisitions", "contended_blocking_acquires", "try_ok", "try_refused", "upgrade_true", "upgrade_false", "concurrent_reader_sections",
                                     "downgrades", "read_sections", "write_sections", "via_native_interface", "via_scoped_ctor_dtor", "sleeping_holds", "noop_transitions",
                                     "sections_inside_hardware_transaction", "upgrades_after_downgrade_in_one_hold" };
    for (int i = 0; i < 16; i++) R.stat(names[i], acc[i]);
    R.stat("fifo_certain_order_pairs", fifo_pairs); R.stat("fifo_requests_checked", fifo_requests); R.stat("fifo_blocking_requests_without_witness", fifo_no_witness);
    R.stat("upgrade_storms", storms); R.stat("upgrade_storms_with_a_loser", storms_over);
    R.stat("requests_on_a_reused_scoped_lock_object", g_reused_objects.load()); R.stat("hook_delays", (long long)perturb().delays.load());
    uint64_t sleeps = 0; for (auto* t : hook_threads_snapshot()) sleeps += t->sleeps.load();
    R.stat("kernel_sleeps_entered", (long long)sleeps);
    // vrt's per-thread hook records are never freed by design; keep those of the exited batch threads reachable for LeakSanitizer
    g_keep_reachable = new std::vector<HookThread*>(hook_threads_snapshot());
    R.write();
    return 0;
}
