// C12: concurrent unordered / ordered associative containers never lose or duplicate keys.
//
// Scenario = one fresh container out of ten kinds (the eight public ones: concurrent_unordered_map/set/multimap/multiset,
// concurrent_map/set/multimap/multiset; plus the skip list instantiated with a level generator the harness steers, as set and
// multiset) + 2-4 persistent threads x 4-48 operations: every insert/emplace form, find, contains, count, full traversals
// (const and non-const, optionally dawdling), for ordered containers traversals that start at find(key); optionally a second
// concurrent round after quiescent unsafe_erase / unsafe_extract + node-handle re-insertion. Keys are equivalence classes
// (granularity g: keys k and k' are equivalent iff k/g == k'/g), every element carries a unique id.
//   unordered: hash = identity / constant / class<<s / class in the top bits (adjacent in split order, one bucket) /
//              multiplicative / base + class*B (one bucket until the table passes B buckets); tables start at 1..64 buckets,
//              pre-filled to just below a doubling threshold, or rehash()ed to 256/1024 untouched buckets before the threads start;
//   ordered:   comparator = less / greater / scrambled / (odd,even); forced-level kinds draw node heights from the plan.
// Oracles (insert-only set model, real-time order; no search needed):
//   unique:  exactly one successful insert per class, failed inserts see the winner's element and not before it was offered;
//   multi:   every insert returns its own element; count between completed and started inserts of the class;
//   lookups started after an insert of the class returned must find it; nothing is found before it was offered;
//   traversals: no element twice, no class twice (unique), every element whose insert returned before the traversal began is
//            seen, nothing unknown / from the future, value intact, comparator order (ordered), no cycle;
//   quiescence: contents == elements present at round start + successful inserts, size(), count/find/contains per class,
//            lower/upper_bound + equal_range (ordered), bucket walk with unsafe_begin/unsafe_end (unordered), recursive
//            range() splitting yields the traversal sequence, constructions == destructions once the container is gone.
#define VRT_IMPL
#include "vrt_tbb.h"
#include <oneapi/tbb/concurrent_unordered_map.h>
#include <oneapi/tbb/concurrent_unordered_set.h>
#include <oneapi/tbb/concurrent_map.h>
#include <oneapi/tbb/concurrent_set.h>
#include <oneapi/tbb/global_control.h>
#include <oneapi/tbb/parallel_for.h>
#include <memory>
#include <unordered_map>

using namespace vrt;

#if VRT_ASAN
#include <sanitizer/lsan_interface.h>
extern "C" const char* __lsan_default_suppressions() { return "leak:vrt::hook_thread\n"; }
#endif

// ------------------------------------------------------------------------------------------------ failure collection
static std::atomic<int> g_fails{0};
static std::mutex g_fail_m;
static std::string g_fail_key, g_fail_detail;
static void fail(const std::string& key, const std::string& what) {
    if (g_fails.fetch_add(1, std::memory_order_relaxed) == 0) { std::lock_guard<std::mutex> l(g_fail_m); g_fail_key = key; g_fail_detail = what; }
}

// ------------------------------------------------------------------------------------------------ element types
static std::atomic<long> g_live{0};
static const int DEAD = 0x7DEAD777;
struct Tag {
    int uid; int key;
    Tag(int u, int k) : uid(u), key(k) { g_live.fetch_add(1, std::memory_order_relaxed); }
    Tag(const Tag& o) : uid(o.uid), key(o.key) { g_live.fetch_add(1, std::memory_order_relaxed); }
    Tag(Tag&& o) noexcept : uid(o.uid), key(o.key) { g_live.fetch_add(1, std::memory_order_relaxed); }
    Tag& operator=(const Tag&) = delete;
    ~Tag() {
        if (uid == DEAD) fail("c12.life.destroyed-twice", "element payload destroyed twice");
        *(volatile int*)&uid = DEAD;
        g_live.fetch_sub(1, std::memory_order_relaxed);
    }
};
// Moving an Elem leaves the source with a key no scenario uses (like a moved-from std::string): a library that looks at the caller's object
// again after it has moved it into a node compares with the wrong key (concurrent_unordered_set did, after a failed CAS: repaired by f8fa62f).
static const int MOVED_FROM_KEY = -1000003;
struct Elem {
    int key; Tag tag;
    Elem(int k, int u) : key(k), tag(u, k) {}
    Elem(const Elem&) = default;
    Elem(Elem&& o) noexcept : key(o.key), tag(std::move(o.tag)) { o.key = MOVED_FROM_KEY; }
};
using MapVal = std::pair<const int, Tag>;
static inline int v_key(const Elem& e) { return e.key; }
static inline const Tag& v_tag(const Elem& e) { return e.tag; }
static inline int v_key(const MapVal& p) { return p.first; }
static inline const Tag& v_tag(const MapVal& p) { return p.second; }

// ------------------------------------------------------------------------------------------------ hash / equality / order
enum HashMode { H_IDENT, H_CONST, H_SHIFT, H_HIGH, H_MULT, H_BOUND, H_NMODES };
static const char* hash_name[] = { "identity", "constant", "class<<s", "class-in-top-bits", "multiplicative", "base+class*B" };
enum CmpMode { C_LESS, C_GREATER, C_SCRAMBLE, C_ODDEVEN, C_NMODES };
static const char* cmp_name[] = { "less", "greater", "scrambled", "odd-before-even" };
struct Cfg { int g = 1; int hmode = 0; uint64_t base = 0; int shift = 0; uint64_t B = 8; int cmode = 0; };
static inline uint64_t hash_of(const Cfg& c, int cls) {
    switch (c.hmode) {
    case H_IDENT: return (uint64_t)cls;
    case H_CONST: return c.base;
    case H_SHIFT: return (uint64_t)cls << c.shift;
    case H_HIGH: return (c.base & 0xff) | ((uint64_t)cls << 52);
    case H_MULT: return (uint64_t)cls * 0x9E3779B97F4A7C15ull;
    default: return c.base + (uint64_t)cls * c.B;
    }
}
static inline uint64_t ord_of(const Cfg& c, int cls) {
    switch (c.cmode) {
    case C_LESS: return (uint64_t)cls;
    case C_GREATER: return 0xffffffffull - (uint64_t)cls;
    case C_SCRAMBLE: return (uint64_t)(uint32_t)((uint32_t)cls * 0x9E3779B1u);
    default: return ((uint64_t)(cls & 1 ? 0 : 1) << 32) | (uint64_t)cls;
    }
}
struct Hsh { const Cfg* c = nullptr; size_t operator()(int k) const { return (size_t)hash_of(*c, k / c->g); } size_t operator()(const Elem& e) const { return (*this)(e.key); } };
struct Eq { const Cfg* c = nullptr; bool operator()(int a, int b) const { return a / c->g == b / c->g; } bool operator()(const Elem& a, const Elem& b) const { return (*this)(a.key, b.key); } };
struct Cmp { const Cfg* c = nullptr; bool operator()(int a, int b) const { return ord_of(*c, a / c->g) < ord_of(*c, b / c->g); } bool operator()(const Elem& a, const Elem& b) const { return (*this)(a.key, b.key); } };

// level generator steered by the plan (forced-level kinds); 0 = geometric with p = 1/2 from the thread's own generator
static thread_local int tl_force_height = 0;
struct ForcedLevels {
    static constexpr std::size_t max_level = 32;
    std::size_t operator()() {
        int h = tl_force_height;
        if (h > 0) return (std::size_t)(h > 32 ? 32 : h);
        uint32_t r = trng().u32(); std::size_t n = 1; while ((r & 1) && n < 31) { n++; r >>= 1; } return n;
    }
};

using UM = tbb::concurrent_unordered_map<int, Tag, Hsh, Eq, std::allocator<MapVal>>;
using US = tbb::concurrent_unordered_set<Elem, Hsh, Eq, std::allocator<Elem>>;
using UMM = tbb::concurrent_unordered_multimap<int, Tag, Hsh, Eq, std::allocator<MapVal>>;
using UMS = tbb::concurrent_unordered_multiset<Elem, Hsh, Eq, std::allocator<Elem>>;
using OM = tbb::concurrent_map<int, Tag, Cmp, std::allocator<MapVal>>;
using OS = tbb::concurrent_set<Elem, Cmp, std::allocator<Elem>>;
using OMM = tbb::concurrent_multimap<int, Tag, Cmp, std::allocator<MapVal>>;
using OMS = tbb::concurrent_multiset<Elem, Cmp, std::allocator<Elem>>;
// the skip list with the steered level generator, wrapped the way concurrent_set / concurrent_multiset wrap it
template <bool Multi> struct ForcedSet : tbb::detail::d2::concurrent_skip_list<tbb::detail::d2::set_traits<Elem, Cmp, ForcedLevels, std::allocator<Elem>, Multi>> {
    using base_type = tbb::detail::d2::concurrent_skip_list<tbb::detail::d2::set_traits<Elem, Cmp, ForcedLevels, std::allocator<Elem>, Multi>>;
    using key_type = Elem; using value_type = typename base_type::value_type; using size_type = typename base_type::size_type;
    using iterator = typename base_type::iterator; using const_iterator = typename base_type::const_iterator; using node_type = typename base_type::node_type;
    using base_type::base_type;
};
using FS = ForcedSet<false>;
using FMS = ForcedSet<true>;

enum ContKind { CK_UM, CK_US, CK_UMM, CK_UMS, CK_OM, CK_OS, CK_OMM, CK_OMS, CK_FS, CK_FMS, CK_N };
static const char* cont_name[] = { "concurrent_unordered_map", "concurrent_unordered_set", "concurrent_unordered_multimap", "concurrent_unordered_multiset",
                                   "concurrent_map", "concurrent_set", "concurrent_multimap", "concurrent_multiset",
                                   "skip_list_set[forced levels]", "skip_list_multiset[forced levels]" };
static inline bool ck_unordered(int k) { return k < 4; }
static inline bool ck_multi(int k) { return k == CK_UMM || k == CK_UMS || k == CK_OMM || k == CK_OMS || k == CK_FMS; }
static inline bool ck_forced(int k) { return k >= CK_FS; }
static inline const char* fam(int k) { return ck_unordered(k) ? "uo" : "sl"; }

template <class C> struct is_map : std::false_type {};
template <> struct is_map<UM> : std::true_type {};
template <> struct is_map<UMM> : std::true_type {};
template <> struct is_map<OM> : std::true_type {};
template <> struct is_map<OMM> : std::true_type {};
template <class C> struct is_unordered : std::false_type {};
template <> struct is_unordered<UM> : std::true_type {};
template <> struct is_unordered<US> : std::true_type {};
template <> struct is_unordered<UMM> : std::true_type {};
template <> struct is_unordered<UMS> : std::true_type {};

template <class C> typename C::value_type mk(int k, int uid) {
    if constexpr (is_map<C>::value) return typename C::value_type(k, Tag(uid, k)); else return Elem(k, uid);
}
// lookup argument: maps take the int key, sets an element (uid 0 = probe)
template <class C> auto probe(int k) { if constexpr (is_map<C>::value) return k; else return Elem(k, 0); }

// ------------------------------------------------------------------------------------------------ plan / log
enum Kind : uint8_t { K_INS_C, K_INS_M, K_INS_H, K_EMPL, K_EMPL_H, K_INS_RANGE, K_INS_NH, K_FIND, K_CONTAINS, K_COUNT, K_TRAV, K_TRAV_FROM, K_N };
static const char* kind_name[] = { "insert(const&)", "insert(&&)", "insert(hint,v)", "emplace", "emplace_hint", "insert(first,last)", "insert(node_type&&)", "find", "contains", "count", "traverse", "traverse-from-find" };
static inline bool is_insert(int k) { return k <= K_INS_NH; }
static inline bool is_lookup(int k) { return k == K_FIND || k == K_CONTAINS || k == K_COUNT; }
static inline bool is_trav(int k) { return k == K_TRAV || k == K_TRAV_FROM; }

struct OpSpec { uint8_t kind = 0; int key = 0; int uid = 0; int pre = 0; uint8_t height = 0; int8_t follow = -1; uint8_t tpause = 0; bool cst = false; uint8_t nx = 0; int xkey[3] = { 0, 0, 0 }; int xuid[3] = { 0, 0, 0 }; uint8_t xheight = 0; };
struct Rec { uint8_t kind = 0; int8_t thread = 0; bool ok = false; bool unknown = false; int key = 0; int cls = 0; int uid = 0; int seen_uid = 0; int seen_key = 0; long count = 0; uint64_t call = 0, ret = 0; int trav = -1; };
struct TravLog { std::vector<std::pair<int, int>> seen; bool cycle = false; };

struct Clock {                       // seq: one global seq_cst counter; ns: CLOCK_MONOTONIC, A precedes B only if A.ret + 2us < B.call
    bool ns = false; std::atomic<uint64_t> c{1};
    uint64_t call() { return ns ? now_ns() : c.fetch_add(1); }
    uint64_t ret() { return ns ? now_ns() + 2000 : c.fetch_add(1); }
};

struct UidInfo { int key = 0; int cls = 0; int thread = -1; bool attempted = false; bool ok = false; bool pre = false; uint64_t call = 0, ret = 0; };

struct Scen {
    uint64_t seed = 0; int kind = 0, nthreads = 2, nU = 1, style = 0, prefill = 0, init_buckets = 8, rehash_to = 0, hstyle = 0, rounds = 1; bool ns_clock = false;
    Cfg cfg;
    std::vector<int> hot, filler;                 // classes
    std::vector<std::vector<OpSpec>> plan;
    std::vector<std::pair<int, int>> prefill_elems;   // (key, uid) inserted sequentially before the first round
    int next_uid = 1; size_t max_elems = 0;
    void* cont = nullptr;
    // node handles extracted at the quiescent point and re-inserted *concurrently* in the next round (std::vector<C::node_type>*)
    void* nh_pool = nullptr; std::vector<std::pair<int, int>> nh_elems; void (*free_pool)(Scen&) = nullptr;
    void (*run)(Scen&, int) = nullptr;
    std::unique_ptr<Barrier> start;
    Clock clk;
    std::vector<Rec> recs[4]; std::vector<TravLog> travs[4];
    std::atomic<int> last_done[4];
    std::vector<UidInfo> uinfo;                   // by uid
    std::string describe() const {
        Json j; j.obj(); j.kv("scn_seed", (unsigned long long)seed); j.kv("container", cont_name[kind]); j.kv("threads", nthreads); j.kv("hot_classes", nU); j.kv("granularity", cfg.g);
        if (ck_unordered(kind)) { j.kv("hash", hash_name[cfg.hmode]); j.kv("hash_base", (unsigned long long)cfg.base); j.kv("hash_shift", cfg.shift); j.kv("hash_B", (unsigned long long)cfg.B); j.kv("init_buckets", init_buckets); j.kv("rehash_to", rehash_to); }
        else { j.kv("comparator", cmp_name[cfg.cmode]); if (ck_forced(kind)) j.kv("height_style", hstyle); }
        j.kv("prefill", prefill); j.kv("style", style); j.kv("rounds", rounds); j.kv("clock", ns_clock ? "ns" : "seq");
        j.kv("replay", "c12 --scn " + std::to_string(seed) + " --cases 2000"); j.end_obj(); return j.s;
    }
};
static std::atomic<Scen*> g_cur{nullptr};

// Waiting between scenarios: spin, yield, short sleeps, and after ~1 s of waiting 50 ms sleeps, so that a thread that waits for a
// wedged scenario counts as asleep for the watchdog (a poller burning CPU would keep the spin-stall verdict from being reached).
template <class P> static inline void polite_wait(P done) {
    for (unsigned spins = 0; !done(); ) { ++spins; if (spins < 3000) _mm_pause(); else if (spins < 3100) sched_yield(); else if (spins < 7000) sleep_us(25); else if (spins < 8000) sleep_us(1000); else sleep_us(50000); }
}

static inline void delay(int d) {
    if (d <= 0) return;
    if (d < 100000) { spin_iters((unsigned)d); return; }
    if (d == 100000) { sched_yield(); return; }
    sleep_us((unsigned)(d - 100000));
}

// ------------------------------------------------------------------------------------------------ thread body
template <class C> static void run_thread(Scen& s, int t) {
    C& c = *(C*)s.cont; const C& cc = c;
    std::vector<Rec>& lg = s.recs[t]; Clock& clk = s.clk;
    const int g = s.cfg.g;
    for (const OpSpec& o : s.plan[t]) {
        delay(o.pre);
        int key = o.key;
        if (o.follow >= 0) { int k2 = s.last_done[o.follow].load(std::memory_order_relaxed); if (k2 >= 0) key = k2; }
        Rec r; r.kind = o.kind; r.thread = (int8_t)t; r.key = key; r.cls = key / g; r.uid = o.uid;
        switch (o.kind) {
        case K_INS_C: case K_INS_M: case K_INS_H: case K_EMPL: case K_EMPL_H: case K_INS_NH: {
            tl_force_height = o.height;
            typename C::iterator it; bool have_bool = true, b = false;
            if (o.kind == K_INS_NH) { auto& nh = (*(std::vector<typename C::node_type>*)s.nh_pool)[o.nx]; r.call = clk.call(); auto p = c.insert(std::move(nh)); r.ret = clk.ret(); it = p.first; b = p.second; }
            else if (o.kind == K_INS_C) { typename C::value_type v = mk<C>(key, o.uid); r.call = clk.call(); auto p = c.insert(v); r.ret = clk.ret(); it = p.first; b = p.second; }
            else if (o.kind == K_INS_M) { typename C::value_type v = mk<C>(key, o.uid); r.call = clk.call(); auto p = c.insert(std::move(v)); r.ret = clk.ret(); it = p.first; b = p.second; }
            else if (o.kind == K_INS_H) { typename C::value_type v = mk<C>(key, o.uid); typename C::const_iterator hint = o.cst ? cc.end() : cc.begin(); r.call = clk.call(); it = c.insert(hint, v); r.ret = clk.ret(); have_bool = false; }
            else if (o.kind == K_EMPL) {
                r.call = clk.call();
                if constexpr (is_map<C>::value) { auto p = c.emplace(key, Tag(o.uid, key)); r.ret = clk.ret(); it = p.first; b = p.second; }
                else { auto p = c.emplace(key, o.uid); r.ret = clk.ret(); it = p.first; b = p.second; }
            } else {
                typename C::const_iterator hint = o.cst ? cc.end() : cc.begin();
                r.call = clk.call();
                if constexpr (is_map<C>::value) it = c.emplace_hint(hint, key, Tag(o.uid, key)); else it = c.emplace_hint(hint, key, o.uid);
                r.ret = clk.ret(); have_bool = false;
            }
            tl_force_height = 0;
            if (it == c.end()) { fail(std::string("c12.") + fam(s.kind) + ".insert.returned-end", std::string(kind_name[o.kind]) + " of key " + std::to_string(key) + " returned end()"); r.ok = false; r.seen_uid = 0; }
            else {
                r.seen_uid = v_tag(*it).uid; r.seen_key = v_key(*it); r.ok = r.seen_uid == o.uid;
                if (have_bool && b != r.ok) fail(std::string("c12.") + fam(s.kind) + ".insert.bool-iterator-mismatch", std::string(kind_name[o.kind]) + " of key " + std::to_string(key) + " uid " + std::to_string(o.uid) + " returned second=" + std::to_string(b) + " with an iterator to uid " + std::to_string(r.seen_uid));
            }
            lg.push_back(r);
            s.last_done[t].store(key, std::memory_order_relaxed);
            break;
        }
        case K_INS_RANGE: {
            tl_force_height = o.xheight;
            std::vector<typename C::value_type> vs; vs.reserve(4);
            vs.push_back(mk<C>(key, o.uid));
            for (int i = 0; i < o.nx; i++) vs.push_back(mk<C>(o.xkey[i], o.xuid[i]));
            r.unknown = true;
            r.call = clk.call(); c.insert(vs.begin(), vs.end()); r.ret = clk.ret();
            tl_force_height = 0;
            lg.push_back(r);
            for (int i = 0; i < o.nx; i++) { Rec x = r; x.key = o.xkey[i]; x.cls = o.xkey[i] / g; x.uid = o.xuid[i]; lg.push_back(x); }
            s.last_done[t].store(key, std::memory_order_relaxed);
            break;
        }
        case K_FIND: {
            auto pk = probe<C>(key);
            if (o.cst) { r.call = clk.call(); auto it = cc.find(pk); r.ret = clk.ret(); r.ok = it != cc.end(); if (r.ok) { r.seen_uid = v_tag(*it).uid; r.seen_key = v_key(*it); } }
            else { r.call = clk.call(); auto it = c.find(pk); r.ret = clk.ret(); r.ok = it != c.end(); if (r.ok) { r.seen_uid = v_tag(*it).uid; r.seen_key = v_key(*it); } }
            lg.push_back(r); break;
        }
        case K_CONTAINS: { auto pk = probe<C>(key); r.call = clk.call(); bool f = cc.contains(pk); r.ret = clk.ret(); r.ok = f; lg.push_back(r); break; }
        case K_COUNT: { auto pk = probe<C>(key); r.call = clk.call(); size_t n = cc.count(pk); r.ret = clk.ret(); r.ok = n != 0; r.count = (long)n; lg.push_back(r); break; }
        case K_TRAV: case K_TRAV_FROM: {
            TravLog tv; tv.seen.reserve(64);
            const size_t cap = s.max_elems + 16; size_t n = 0;
            auto visit = [&](const typename C::value_type& v) { tv.seen.emplace_back(v_key(v), v_tag(v).uid); n++; if (o.tpause && n % o.tpause == 0) spin_iters(40u * o.tpause + 30); };
            auto pk = probe<C>(key);
            r.call = clk.call();
            if (o.kind == K_TRAV_FROM) {
                auto it = c.find(pk); r.ok = it != c.end();
                if (r.ok) { r.seen_uid = v_tag(*it).uid; r.seen_key = v_key(*it); }
                for (; it != c.end(); ++it) { visit(*it); if (n > cap) { tv.cycle = true; break; } }
            } else if (o.cst) { for (auto it = cc.begin(); it != cc.end(); ++it) { visit(*it); if (n > cap) { tv.cycle = true; break; } } }
            else { for (auto it = c.begin(); it != c.end(); ++it) { visit(*it); if (n > cap) { tv.cycle = true; break; } } }
            r.ret = clk.ret();
            r.trav = (int)s.travs[t].size(); s.travs[t].push_back(std::move(tv));
            lg.push_back(r); break;
        }
        }
        progress();
    }
}

// ------------------------------------------------------------------------------------------------ quiescent probing (templated part)
struct PerCls { int cls; int key; long count; bool contains; bool found; int find_uid; };
struct Final { std::vector<std::pair<int, int>> trav; bool cycle = false; size_t size = 0; std::vector<PerCls> per; };

template <class R> static void walk_range(R& r, std::vector<int>& uids, int depth, int& pieces) {
    if (depth < 48 && r.is_divisible()) { R r2(r, tbb::split()); walk_range(r, uids, depth + 1, pieces); walk_range(r2, uids, depth + 1, pieces); return; }
    pieces++;
    for (auto it = r.begin(); it != r.end(); ++it) { uids.push_back(v_tag(*it).uid); if (uids.size() > 100000) return; }
}

// tbb::parallel_for over range() / const range() must visit every element exactly once; empty() must say whether there are elements
static tbb::task_arena& range_arena() { static tbb::task_arena* a = new tbb::task_arena(3); return *a; }   // alive for the whole process
template <class C> static void parallel_range_check(C& c, const std::vector<std::pair<int, int>>& trav, const std::string& F, int next_uid) {
    const C& cc = c;
    for (int pass = 0; pass < 2; pass++) {
        std::mutex m; std::vector<int> got; bool is_empty;
        auto body = [&](const auto& r) { std::vector<int> loc; for (auto it = r.begin(); it != r.end(); ++it) { loc.push_back(v_tag(*it).uid); if (loc.size() > 200000) break; } std::lock_guard<std::mutex> l(m); got.insert(got.end(), loc.begin(), loc.end()); };
        if (pass == 0) { auto rg = c.range(); is_empty = rg.empty(); range_arena().execute([&] { tbb::parallel_for(rg, body); }); }
        else { auto rg = cc.range(); is_empty = rg.empty(); range_arena().execute([&] { tbb::parallel_for(rg, body); }); }
        if (is_empty != trav.empty()) fail(F + (trav.size() == 1 ? ".quiescent.one-element-range-empty" : ".quiescent.range-empty-mismatch"), std::string(pass ? "const " : "") + "range().empty() = " + std::to_string(is_empty) + " for a container with " + std::to_string(trav.size()) + " elements");
        std::vector<int> want; for (auto& e : trav) want.push_back(e.second);
        std::sort(want.begin(), want.end()); std::sort(got.begin(), got.end());
        if (got != want) {
            std::vector<char> seen((size_t)next_uid + 1, 0); std::string why;
            for (int u : got) { if (u <= 0 || u > next_uid) { why = "unknown uid " + std::to_string(u); break; } if (seen[u]) { why = "uid " + std::to_string(u) + " visited twice"; break; } seen[u] = 1; }
            if (why.empty()) for (int u : want) if (u > 0 && u <= next_uid && !seen[u]) { why = "uid " + std::to_string(u) + " never visited"; break; }
            fail(F + ".range-traversal-miss", std::string("parallel_for over ") + (pass ? "const " : "") + "range() visited " + std::to_string(got.size()) + " elements of " + std::to_string(want.size()) + ": " + why);
        }
        result().stat("parallel_range_traversals");
        result().stat("parallel_range_size_" + std::string(trav.size() > 3 ? "n" : std::to_string(trav.size())));
    }
}

template <class C> static void probe_final(Scen& s, Final& f, const std::vector<int>& classes, bool deep) {
    C& c = *(C*)s.cont; const C& cc = c;
    const std::string F = std::string("c12.") + fam(s.kind);
    const size_t cap = s.max_elems + 16;
    for (auto it = cc.begin(); it != cc.end(); ++it) { f.trav.emplace_back(v_key(*it), v_tag(*it).uid); if (f.trav.size() > cap) { f.cycle = true; break; } }
    f.size = cc.size();
    for (int cls : classes) {
        int key = cls * s.cfg.g + (s.cfg.g > 1 ? (cls % s.cfg.g) : 0);
        auto pk = probe<C>(key);
        PerCls p; p.cls = cls; p.key = key; p.count = (long)cc.count(pk); p.contains = cc.contains(pk);
        auto it = c.find(pk); p.found = it != c.end(); p.find_uid = p.found ? v_tag(*it).uid : 0;
        if (p.found && v_key(*it) / s.cfg.g != cls) fail(F + ".quiescent.find-wrong-key", "find(" + std::to_string(key) + ") returned an element with key " + std::to_string(v_key(*it)));
        f.per.push_back(p);
    }
    if (f.cycle) return;
    if (trng().chance(1, deep ? 3 : f.trav.size() <= 3 ? 6 : 40)) parallel_range_check<C>(c, f.trav, F, s.next_uid);
    if (!deep) return;
    // recursive splitting of range() must yield the traversal sequence
    {
        auto rg = c.range(); std::vector<int> uids; int pieces = 0;
        walk_range(rg, uids, 0, pieces);
        bool same = uids.size() == f.trav.size();
        for (size_t i = 0; same && i < uids.size(); i++) same = uids[i] == f.trav[i].second;
        if (!same) fail(F + ".quiescent.range-split-mismatch", "recursive splitting of range() yielded " + std::to_string(uids.size()) + " elements in " + std::to_string(pieces) + " pieces, the traversal " + std::to_string(f.trav.size()) + " (or another order)");
        result().stat("range_pieces", pieces);
    }
    if constexpr (is_unordered<C>::value) {
        size_t bc = c.unsafe_bucket_count();
        if (bc <= 512) {
            std::vector<char> seen((size_t)s.next_uid, 0); size_t total = 0; bool bad = false; std::string why;
            for (size_t b = 0; b < bc && !bad; b++) {
                size_t n = 0;
                for (auto it = c.unsafe_begin(b); it != c.unsafe_end(b); ++it) {
                    int uid = v_tag(*it).uid; int cls = v_key(*it) / s.cfg.g;
                    if (++n > cap) { bad = true; why = "bucket " + std::to_string(b) + " does not end"; break; }
                    if (uid <= 0 || (size_t)uid >= seen.size() || seen[uid]) { bad = true; why = "uid " + std::to_string(uid) + " met twice / unknown in bucket " + std::to_string(b); break; }
                    seen[uid] = 1; total++;
                    if (hash_of(s.cfg, cls) % bc != b) { bad = true; why = "element with hash " + std::to_string(hash_of(s.cfg, cls)) + " listed in bucket " + std::to_string(b) + " of " + std::to_string(bc); break; }
                }
            }
            if (!bad && total != f.trav.size()) { bad = true; why = "buckets hold " + std::to_string(total) + " elements, traversal " + std::to_string(f.trav.size()); }
            if (bad) fail(F + ".quiescent.bucket-walk-mismatch", why);
            result().stat("bucket_walks");
        }
    } else {
        // lower_bound / upper_bound / equal_range against the (sorted) traversal
        std::vector<uint64_t> ords; for (auto& e : f.trav) ords.push_back(ord_of(s.cfg, e.first / s.cfg.g));
        for (auto& p : f.per) {
            uint64_t o = ord_of(s.cfg, p.cls);
            size_t lo = std::lower_bound(ords.begin(), ords.end(), o) - ords.begin(), hi = std::upper_bound(ords.begin(), ords.end(), o) - ords.begin();
            auto pk = probe<C>(p.key);
            auto lb = c.lower_bound(pk); auto ub = c.upper_bound(pk); auto er = c.equal_range(pk);
            int lb_uid = lb == c.end() ? 0 : v_tag(*lb).uid, ub_uid = ub == c.end() ? 0 : v_tag(*ub).uid;
            int e_lb = lo < f.trav.size() ? f.trav[lo].second : 0, e_ub = hi < f.trav.size() ? f.trav[hi].second : 0;
            long dist = (long)std::distance(er.first, er.second);
            if (lb_uid != e_lb || ub_uid != e_ub || dist != (long)(hi - lo))
                fail(F + ".quiescent.bound-mismatch", "class " + std::to_string(p.cls) + ": lower_bound -> uid " + std::to_string(lb_uid) + " (expected " + std::to_string(e_lb) + "), upper_bound -> uid " + std::to_string(ub_uid) + " (expected " + std::to_string(e_ub) + "), equal_range spans " + std::to_string(dist) + " (expected " + std::to_string(hi - lo) + ")");
        }
    }
}

static bool g_drop_sl_handles = false;
// quiescent mutations between two rounds: unsafe_erase(key), unsafe_erase(iterator), unsafe_extract + insert(node handle)
template <class C> static void mutate_quiescent(Scen& s, Rng& r, std::map<int, int>& present /*uid -> key*/) {
    C& c = *(C*)s.cont;
    const std::string F = std::string("c12.") + fam(s.kind);
    int n = 1 + (int)r.below(4); bool nh_round = (ck_multi(s.kind) || ck_unordered(s.kind)) && r.chance(1, 2); if (nh_round) n += 3 + (int)r.below(6);
    for (int i = 0; i < n && !present.empty(); i++) {
        auto pit = present.begin(); std::advance(pit, r.below(present.size()));
        int key = pit->second, cls = key / s.cfg.g; unsigned how = (unsigned)r.below(3); if (nh_round && i >= 2) how = 2;
        if (how == 0) {
            size_t expect = 0; for (auto& e : present) if (e.second / s.cfg.g == cls) expect++;
            size_t got = c.unsafe_erase(probe<C>(key));
            if (got != expect) fail(F + ".quiescent.erase-count-mismatch", "unsafe_erase(" + std::to_string(key) + ") removed " + std::to_string(got) + " elements, the model holds " + std::to_string(expect));
            for (auto it = present.begin(); it != present.end();) { if (it->second / s.cfg.g == cls) it = present.erase(it); else ++it; }
            result().stat("quiescent_erase_key");
        } else if (how == 1) {
            auto it = c.find(probe<C>(key));
            if (it == c.end()) { fail(F + ".quiescent.find-failed", "find(" + std::to_string(key) + ") failed at quiescence before unsafe_erase(iterator)"); continue; }
            int uid = v_tag(*it).uid; c.unsafe_erase(it);
            if (!present.erase(uid)) fail(F + ".quiescent.unknown-element", "find returned uid " + std::to_string(uid) + " which the model does not hold");
            result().stat("quiescent_erase_iterator");
        } else {
            auto it = c.find(probe<C>(key));
            if (it == c.end()) { fail(F + ".quiescent.find-failed", "find(" + std::to_string(key) + ") failed at quiescence before unsafe_extract"); continue; }
            int uid = v_tag(*it).uid, ekey = v_key(*it); size_t sz0 = c.size();     // the element found may be another member of the class than the one drawn
            auto nh = c.unsafe_extract(it);
            if (nh.empty() || c.size() != sz0 - 1) fail(F + ".quiescent.extract-failed", "unsafe_extract gave an empty handle or size() did not drop by one");
            size_t same_cls = 0; for (auto& e : present) if (e.second / s.cfg.g == cls && e.first != uid) same_cls++;
            if (same_cls == 0 && c.contains(probe<C>(key))) fail(F + ".quiescent.extract-failed", "key still found after unsafe_extract");
            // multi containers (insert always succeeds) and unordered containers (a handle whose insert failed may be dropped): keep the handle,
            // it is inserted by one of the threads of the next round while the others insert, count and traverse
            if (!nh.empty() && (ck_multi(s.kind) || ck_unordered(s.kind)) && s.nh_elems.size() < 12 && r.chance(2, 3)) {
                auto* pool = (std::vector<typename C::node_type>*)s.nh_pool;
                if (!pool) { pool = new std::vector<typename C::node_type>(); pool->reserve(16); s.nh_pool = pool; s.free_pool = [](Scen& sc) { delete (std::vector<typename C::node_type>*)sc.nh_pool; sc.nh_pool = nullptr; }; }
                pool->push_back(std::move(nh)); s.nh_elems.push_back({ ekey, uid }); present.erase(uid);
                result().stat("node_handles_kept_for_concurrent_reinsertion");
            }
            if (!nh.empty()) {
                // dropping a non-empty handle of a skip list frees the node with the wrong size (side finding reported; --drop-sl-handles reproduces it)
                if (r.chance(1, 4) && (ck_unordered(s.kind) || g_drop_sl_handles)) { present.erase(uid); /* handle dropped: element destroyed with it */ }
                else {
                    auto p = c.insert(std::move(nh));
                    if (!p.second || p.first == c.end() || v_tag(*p.first).uid != uid || !nh.empty()) fail(F + ".quiescent.node-handle-insert-failed", "insert(node_type&&) of the extracted element uid " + std::to_string(uid) + " failed");
                }
            }
            result().stat("quiescent_extract");
        }
    }
}

template <class C> static void build(Scen& s) {
    C* c;
    if constexpr (is_unordered<C>::value) c = new C((size_t)s.init_buckets, Hsh{ &s.cfg }, Eq{ &s.cfg });
    else c = new C(Cmp{ &s.cfg });
    s.cont = c;
    for (auto& e : s.prefill_elems) { tl_force_height = 0; auto p = c->insert(mk<C>(e.first, e.second)); if (!p.second) fail(std::string("c12.") + fam(s.kind) + ".insert.sequential-prefill-failed", "sequential insert of key " + std::to_string(e.first) + " returned false"); }
    if constexpr (is_unordered<C>::value) if (s.rehash_to) c->rehash((size_t)s.rehash_to);
}
template <class C> static void destroy(Scen& s) { delete (C*)s.cont; s.cont = nullptr; }
template <class C> static size_t buckets(Scen& s) { if constexpr (is_unordered<C>::value) return ((C*)s.cont)->unsafe_bucket_count(); else return 0; }

// deterministic part: parallel_for over range() for 0,1,2,3,5,17,100 sequentially inserted elements
template <class C> static void range_selftest(Scen& s) {
    const std::string F = std::string("c12.") + fam(s.kind);
    for (int n : { 0, 1, 2, 3, 5, 17, 100 }) {
        s.prefill_elems.clear(); s.next_uid = 1;
        for (int i = 0; i < n; i++) s.prefill_elems.emplace_back((i * 7) % 101, s.next_uid++);
        build<C>(s);
        C& c = *(C*)s.cont; std::vector<std::pair<int, int>> trav;
        for (auto it = c.begin(); it != c.end(); ++it) trav.emplace_back(v_key(*it), v_tag(*it).uid);
        if ((int)trav.size() != n) fail(F + ".quiescent.lost-element", "sequentially filled container: traversal met " + std::to_string(trav.size()) + " of " + std::to_string(n) + " elements");
        parallel_range_check<C>(c, trav, F, s.next_uid);
        destroy<C>(s);
    }
}

struct VT { void (*build)(Scen&); void (*run)(Scen&, int); void (*probe)(Scen&, Final&, const std::vector<int>&, bool); void (*mutate)(Scen&, Rng&, std::map<int, int>&); void (*destroy)(Scen&); size_t (*buckets)(Scen&); void (*selftest)(Scen&); };
template <class C> static VT vt() { return VT{ &build<C>, &run_thread<C>, &probe_final<C>, &mutate_quiescent<C>, &destroy<C>, &buckets<C>, &range_selftest<C> }; }
static const VT g_vt[CK_N] = { vt<UM>(), vt<US>(), vt<UMM>(), vt<UMS>(), vt<OM>(), vt<OS>(), vt<OMM>(), vt<OMS>(), vt<FS>(), vt<FMS>() };

// ------------------------------------------------------------------------------------------------ generator
static int key_of_cls(const Cfg& c, int cls, Rng& r) { return cls * c.g + (c.g > 1 ? (int)r.below(c.g) : 0); }

static void gen_config(Scen& s, Rng& r, const std::string& mode, long force_kind, long force_threads, bool light) {
    if (force_kind >= 0) s.kind = (int)force_kind;
    else if (mode == "uo") s.kind = (int)r.below(4);
    else if (mode == "sl") s.kind = 4 + (int)r.below(6);
    else if (mode == "forced") s.kind = 8 + (int)r.below(2);
    else if (mode == "countrace") s.kind = (int)r.pick(std::vector<int>{ CK_UMM, CK_UMS, CK_OMM, CK_OMS, CK_FMS });
    else { unsigned k = (unsigned)r.below(20); s.kind = k < 16 ? (int)(k % 8) : 8 + (int)(k % 2); }
    s.nthreads = force_threads ? (int)force_threads : 2 + (int)r.below(3);
    s.cfg.g = r.chance(1, 5) ? 2 + (int)r.below(3) : 1;
    s.ns_clock = light || r.chance(1, 4);
    s.nU = (int)r.pick(std::vector<int>{ 1, 1, 2, 3, 4, 6, 8, 16, 32, 64 });
    s.style = (int)r.below(3);
    s.rounds = r.chance(1, 4) ? 2 : 1;
    if (ck_unordered(s.kind)) {
        s.cfg.hmode = (int)r.below(H_NMODES); s.cfg.base = r.next() & 0x3ff; s.cfg.shift = (int)r.pick(std::vector<int>{ 1, 3, 4, 8, 16 }); s.cfg.B = 1ull << (3 + r.below(5));
        s.init_buckets = (int)r.pick(std::vector<int>{ 1, 1, 1, 2, 2, 8, 8, 16, 64 });
        if (r.chance(1, 2)) { int j = (int)r.below(6); int thr = 4 * s.init_buckets << j; if (thr > 256) thr = 4 * s.init_buckets; s.prefill = thr - (int)r.below(4); if (s.prefill < 0) s.prefill = 0; }
        else s.prefill = r.chance(1, 3) ? (int)r.below(12) : 0;
        s.rehash_to = r.chance(1, 8) ? (int)r.pick(std::vector<int>{ 256, 1024 }) : 0;
    } else {
        s.cfg.cmode = (int)r.below(C_NMODES);
        s.prefill = (int)r.pick(std::vector<int>{ 0, 0, 0, 1, 3, 8, 20, 50 });
        s.hstyle = (int)r.below(5);
    }
    if (mode == "countrace") { s.style = 0; s.nU = (int)r.pick(std::vector<int>{ 4, 8, 16, 32 }); }
}

static uint8_t gen_height(Scen& s, Rng& r, int i) {
    if (!ck_forced(s.kind)) return 0;
    switch (s.hstyle) {
    case 0: return 0;
    case 1: return (uint8_t)(1 + r.below(8));
    case 2: return (uint8_t)(s.seed % 4 == 0 ? 1 : s.seed % 4 == 1 ? 2 : s.seed % 4 == 2 ? 5 : 12);
    case 3: return (uint8_t)(i & 1 ? 16 : 1);
    default: return (uint8_t)(r.chance(1, 8) ? 32 : 1);
    }
}

// classes: hot = 2*i, fillers = odd numbers; both interleave in every comparator
static void gen_universe(Scen& s, Rng& r) {
    s.hot.clear(); s.filler.clear();
    for (int i = 0; i < s.nU; i++) s.hot.push_back(2 * i);
    int span = 2 * std::max(s.nU, std::max(s.prefill, 1));
    std::set<int> used;
    int nf = s.prefill;
    bool multi = ck_multi(s.kind);
    // some of the prefill goes to hot classes (multi: possibly several copies; unique: at most one per class)
    int hot_pre = s.prefill > 0 && r.chance(1, 3) ? 1 + (int)r.below(std::min(s.prefill, multi ? 6 : s.nU)) : 0;
    nf -= hot_pre;
    while ((int)used.size() < nf) used.insert(2 * (int)r.below(span) + 1);
    for (int c : used) s.filler.push_back(c);
    s.prefill_elems.clear();
    std::set<int> hot_used;
    for (int i = 0; i < hot_pre; i++) {
        int c = s.hot[r.below(s.nU)];
        if (!multi && !hot_used.insert(c).second) { int f2 = 2 * (int)r.below(span) + 1; if (used.insert(f2).second) { s.filler.push_back(f2); } continue; }
        s.prefill_elems.emplace_back(key_of_cls(s.cfg, c, r), 0);
    }
    for (int c : s.filler) s.prefill_elems.emplace_back(key_of_cls(s.cfg, c, r), 0);
    // shuffle the sequential insertion order
    for (size_t i = s.prefill_elems.size(); i > 1; i--) std::swap(s.prefill_elems[i - 1], s.prefill_elems[r.below(i)]);
    for (auto& e : s.prefill_elems) e.second = s.next_uid++;
}

static void gen_plan(Scen& s, Rng& r, int cpus, const std::string& mode, int round) {
    const bool lowcpu = cpus > 0 && cpus <= 2;
    const bool multi = ck_multi(s.kind), ordered = !ck_unordered(s.kind);
    s.plan.assign(s.nthreads, {});
    std::vector<int> perm = s.hot; for (size_t i = perm.size(); i > 1; i--) std::swap(perm[i - 1], perm[r.below(i)]);
    bool any_inserter = false;
    for (int t = 0; t < s.nthreads; t++) {
        unsigned role = (unsigned)r.below(100);     // <70 mixed, <85 reader, else inserter
        if (t == s.nthreads - 1 && !any_inserter) role = 90;
        if (role < 70 || role >= 85) any_inserter = true;
        if (mode == "countrace") role = t == 0 ? 200 : 90;
        int n = 4 + (int)r.below(r.chance(1, 3) ? 45 : 16);
        int cursor = 0;
        for (int i = 0; i < n; i++) {
            OpSpec o;
            unsigned y = (unsigned)r.below(100);
            if (role == 200) o.kind = r.chance(3, 4) ? K_COUNT : K_INS_C;
            else if (role < 70) o.kind = y < 50 ? K_INS_C : y < 55 ? K_INS_RANGE : y < 67 ? K_FIND : y < 75 ? K_CONTAINS : y < 88 ? K_COUNT : K_TRAV;
            else if (role < 85) o.kind = y < 10 ? K_INS_C : y < 35 ? K_FIND : y < 50 ? K_CONTAINS : y < 70 ? K_COUNT : K_TRAV;
            else o.kind = y < 90 ? K_INS_C : y < 95 ? K_INS_RANGE : K_TRAV;
            if (o.kind == K_INS_C) o.kind = (uint8_t)r.pick(std::vector<int>{ K_INS_C, K_INS_C, K_INS_M, K_INS_H, K_EMPL, K_EMPL, K_EMPL_H });
            if (o.kind == K_TRAV && ordered && r.chance(1, 3)) o.kind = K_TRAV_FROM;
            o.cst = r.chance(1, 2);
            int cls;
            if (is_insert(o.kind)) {
                if (s.style == 1) cls = perm[cursor++ % perm.size()];
                else if (s.style == 2) cls = s.hot[(t + s.nthreads * cursor++) % s.hot.size()];
                else cls = s.hot[r.below(s.hot.size())];
                if (!s.filler.empty() && r.chance(1, 25)) cls = s.filler[r.below(s.filler.size())];
            } else {
                if (s.style == 1 && cursor > 0) cls = perm[(cursor - 1 - (int)r.below(std::min(cursor, 3))) % perm.size()];
                else cls = s.hot[r.below(s.hot.size())];
                if (!s.filler.empty() && r.chance(1, 6)) cls = s.filler[r.below(s.filler.size())];
                if (s.nthreads > 1 && r.chance(3, 10)) { int f = (int)r.below(s.nthreads - 1); if (f >= t) f++; o.follow = (int8_t)f; }
            }
            if (mode == "countrace" && role == 200 && o.kind == K_COUNT) { o.follow = -1; }
            o.key = key_of_cls(s.cfg, cls, r);
            if (is_insert(o.kind)) { o.uid = s.next_uid++; o.height = gen_height(s, r, i); }
            if (o.kind == K_INS_RANGE) {
                o.nx = (uint8_t)(1 + r.below(3)); o.xheight = o.height;
                for (int x = 0; x < o.nx; x++) { int c2 = r.chance(1, 2) ? cls : s.hot[r.below(s.hot.size())]; o.xkey[x] = key_of_cls(s.cfg, c2, r); o.xuid[x] = s.next_uid++; }
            }
            if (is_trav(o.kind)) o.tpause = r.chance(1, 2) ? 0 : (uint8_t)(1 + r.below(4));
            unsigned p = (unsigned)r.below(100); unsigned py = lowcpu ? 30 : 6;
            o.pre = p < 55 ? 0 : p < 100 - py ? (int)r.below(500) : 100000;
            s.plan[t].push_back(o);
        }
    }
    // node handles kept at the quiescent point: each is inserted by some thread somewhere in this round
    for (size_t k = 0; k < s.nh_elems.size() && round > 0; k++) {
        OpSpec o; o.kind = K_INS_NH; o.key = s.nh_elems[k].first; o.uid = s.nh_elems[k].second; o.nx = (uint8_t)k; o.pre = r.chance(1, 2) ? 0 : (int)r.below(400);
        auto& pl = s.plan[r.below((uint64_t)s.nthreads)]; pl.insert(pl.begin() + (long)r.below(pl.size() + 1), o);
    }
    (void)multi; (void)round;
}


// ------------------------------------------------------------------------------------------------ oracle
struct ClsInfo { int pre_count = 0; int pre_uid = 0; std::vector<int> ins; int winner = 0; int nsucc = 0; };

static std::string rec_str(const Rec& r) {
    return "[t" + std::to_string(r.thread) + " " + kind_name[r.kind] + " key " + std::to_string(r.key) + " uid " + std::to_string(r.uid) + " -> " + (r.kind == K_COUNT ? std::to_string(r.count) : std::string(r.unknown ? "?" : r.ok ? "ok" : "no")) +
           " saw uid " + std::to_string(r.seen_uid) + " call " + std::to_string(r.call) + " ret " + std::to_string(r.ret) + "]";
}
static std::string uid_str(const std::vector<UidInfo>& U, int uid) {
    const UidInfo& u = U[uid];
    if (u.pre) return "uid " + std::to_string(uid) + " (key " + std::to_string(u.key) + ", present before the threads started)";
    return "uid " + std::to_string(uid) + " (key " + std::to_string(u.key) + ", insert by t" + std::to_string(u.thread) + " call " + std::to_string(u.call) + " ret " + std::to_string(u.ret) + (u.ok ? " ok)" : " failed)");
}

struct RoundStats { long overlap_pairs = 0, insert_races = 0, trav_overlapping_insert = 0, lookups_forced = 0, failed_inserts = 0, contested_classes = 0, must_see_checked = 0, travs = 0, known_overcounts = 0; uint64_t sig = 0; };

// `present`: uid -> key of the elements present when the round started; replaced by the state after the round.
static void check_round(Scen& s, std::map<int, int>& present, const Final& fin, RoundStats& st) {
    const bool multi = ck_multi(s.kind), ordered = !ck_unordered(s.kind);
    const std::string F = std::string("c12.") + fam(s.kind);
    const int g = s.cfg.g;
    const uint64_t margin = s.ns_clock ? 2000 : 0;
    std::vector<UidInfo>& U = s.uinfo;
    U.assign((size_t)s.next_uid, UidInfo());
    for (auto& e : present) { UidInfo& u = U[e.first]; u.key = e.second; u.cls = e.second / g; u.pre = true; u.ok = true; }
    std::vector<char> in_final(U.size(), 0);
    std::vector<const Rec*> all;
    for (int t = 0; t < s.nthreads; t++) for (auto& r : s.recs[t]) all.push_back(&r);
    // ---- final traversal: duplicates / unknown uids; resolves the outcome of range inserts
    if (fin.cycle) fail(F + ".quiescent.traversal-does-not-end", "quiescent traversal met more than " + std::to_string(s.max_elems + 16) + " elements");
    for (auto& e : fin.trav) {
        int uid = e.second;
        if (uid <= 0 || (size_t)uid >= U.size()) { fail(F + ".quiescent.unknown-element", "quiescent traversal met uid " + std::to_string(uid) + " (key " + std::to_string(e.first) + ") which nobody offered"); continue; }
        if (in_final[uid]) fail(F + ".quiescent.element-twice", "quiescent traversal met uid " + std::to_string(uid) + " (key " + std::to_string(e.first) + ") twice");
        in_final[uid] = 1;
    }
    std::map<int, ClsInfo> cls;
    for (auto& e : present) { ClsInfo& ci = cls[e.second / g]; ci.pre_count++; ci.pre_uid = e.first; }
    for (const Rec* r : all) if (is_insert(r->kind)) {
        UidInfo& u = U[r->uid]; u.key = r->key; u.cls = r->cls; u.thread = r->thread; u.attempted = true; u.call = r->call; u.ret = r->ret;
        u.ok = r->unknown ? (multi || in_final[r->uid] != 0) : r->ok;     // insert(first,last): every element enters a multi container; unique: judged by the outcome
        cls[r->cls].ins.push_back(r->uid);
    }
    // ---- inserts
    for (auto& kv : cls) {
        ClsInfo& ci = kv.second;
        for (int uid : ci.ins) if (U[uid].ok) { ci.nsucc++; ci.winner = uid; }
        if (ci.ins.size() >= 2) st.contested_classes++;
        if (multi) continue;
        if (ci.pre_count) ci.winner = ci.pre_uid;
        int total = ci.nsucc + ci.pre_count;
        if (total > 1) {
            std::string d = "class " + std::to_string(kv.first) + ": " + std::to_string(ci.nsucc) + " successful inserts" + (ci.pre_count ? " although the key was present before the threads started" : "") + ":";
            for (int uid : ci.ins) if (U[uid].ok) d += " " + uid_str(U, uid);
            fail(F + ".unique.double-insert", d);
            ci.winner = 0;
        }
        if (total == 0 && !ci.ins.empty()) fail(F + ".unique.no-winner", "class " + std::to_string(kv.first) + ": " + std::to_string(ci.ins.size()) + " inserts, none reported success");
    }
    for (const Rec* r : all) if (is_insert(r->kind) && !r->unknown) {
        const ClsInfo& ci = cls[r->cls];
        if (r->seen_uid > 0 && r->seen_key / g != r->cls) fail(F + ".insert.iterator-wrong-key", rec_str(*r) + " returned an iterator to key " + std::to_string(r->seen_key));
        if (multi) { if (!r->ok) fail(F + ".multi.insert-not-own-element", rec_str(*r) + ": insert into a multi container did not return an iterator to the inserted element"); continue; }
        if (r->ok) continue;
        st.failed_inserts++;
        int w = ci.winner; if (!w) continue;
        if (r->seen_uid != w) fail(F + ".unique.failed-insert-wrong-element", rec_str(*r) + " failed but its iterator points to uid " + std::to_string(r->seen_uid) + ", the element of the class is " + uid_str(U, w));
        else if (!U[w].pre && !(U[w].call < r->ret)) fail(F + ".unique.failed-before-offered", rec_str(*r) + " failed before the only successful insert of the class was even called: " + uid_str(U, w));
    }
    // ---- lookups
    static const ClsInfo no_cls;
    for (const Rec* r : all) if (is_lookup(r->kind) || r->kind == K_TRAV_FROM) {
        auto cit = cls.find(r->cls); const ClsInfo& ci = cit == cls.end() ? no_cls : cit->second;
        long lo = ci.pre_count, hi = ci.pre_count; bool must = ci.pre_count > 0;
        for (int uid : ci.ins) { const UidInfo& u = U[uid]; if (u.ret < r->call) { must = true; if (u.ok) lo++; } if (u.ok && u.call < r->ret) hi++; }
        bool found = r->ok;
        if (must) st.lookups_forced++;
        if (must && !found) fail(F + ".lookup.missed-completed-insert", rec_str(*r) + " missed class " + std::to_string(r->cls) + " although " + (ci.pre_count ? "it was present before the threads started" : "an insert of it had returned before the lookup was called") + "; inserts of the class: " + [&] { std::string d; int n = 0; for (int uid : ci.ins) if (n++ < 6) d += uid_str(U, uid) + " "; return d; }());
        if (found && hi == 0) fail(F + ".lookup.phantom", rec_str(*r) + " found class " + std::to_string(r->cls) + " although no successful insert of it had been called before the lookup returned");
        if ((r->kind == K_FIND || r->kind == K_TRAV_FROM) && found) {
            int su = r->seen_uid;
            if (su <= 0 || (size_t)su >= U.size() || !(U[su].pre || U[su].attempted)) fail(F + ".lookup.unknown-element", rec_str(*r) + " returned an element nobody offered in this round");
            else if (U[su].cls != r->cls || r->seen_key != U[su].key) fail(F + ".lookup.wrong-element", rec_str(*r) + " returned " + uid_str(U, su) + " carrying key " + std::to_string(r->seen_key));
            else if (!U[su].ok) fail(F + ".lookup.unlinked-element-visible", rec_str(*r) + " returned the element of an insert that reported failure: " + uid_str(U, su));
            else if (!U[su].pre && !(U[su].call < r->ret)) fail(F + ".lookup.phantom", rec_str(*r) + " returned an element whose insert was called later: " + uid_str(U, su));
            else if (!multi && ci.winner && su != ci.winner) fail(F + ".lookup.wrong-element", rec_str(*r) + " returned uid " + std::to_string(su) + ", the element of the class is " + uid_str(U, ci.winner));
        }
        if (r->kind == K_COUNT) {
            if (!multi) { if (r->count > 1) fail(F + ".unique.count-above-one", rec_str(*r) + ": count() of a unique container returned " + std::to_string(r->count)); }
            else if (r->count < lo) fail(F + ".multi.count-below-completed-inserts", rec_str(*r) + ": " + std::to_string(lo) + " elements of class " + std::to_string(r->cls) + " were present or completely inserted before count() was called");
            else if (r->count > hi) {
                // repaired defect b27be3f (count = equal_range + std::distance over a stale end): keep the two causes apart in the key
                long other = 0;
                for (const Rec* x : all) if (is_insert(x->kind) && x->cls != r->cls && x->thread != r->thread && x->call < r->ret && r->call < x->ret) other++;
                if (r->count <= hi + other) { st.known_overcounts++; fail(F + ".multi.count-includes-other-keys", rec_str(*r) + ": only " + std::to_string(hi) + " inserts of class " + std::to_string(r->cls) + " had been called before count() returned; " + std::to_string(other) + " inserts of OTHER keys overlapped the call (elements of other keys linked behind the group while count() walked it were counted)"); }
                else fail(F + ".multi.count-above-started-inserts", rec_str(*r) + ": only " + std::to_string(hi) + " inserts of class " + std::to_string(r->cls) + " had been called before count() returned and only " + std::to_string(other) + " inserts of other keys overlapped it");
            }
        }
    }
    // ---- traversals
    for (const Rec* r : all) if (is_trav(r->kind)) {
        const TravLog& tv = s.travs[r->thread][r->trav];
        st.travs++;
        if (tv.cycle) fail(F + ".trav.does-not-end", rec_str(*r) + " met more than " + std::to_string(s.max_elems + 16) + " elements (more than were ever offered)");
        std::vector<char> seen(U.size(), 0); std::set<int> seen_cls;
        uint64_t prev_ord = 0; bool first = true;
        for (auto& e : tv.seen) {
            int uid = e.second, key = e.first;
            if (uid <= 0 || (size_t)uid >= U.size() || !(U[uid].pre || U[uid].attempted)) { fail(F + ".trav.unknown-element", rec_str(*r) + " met uid " + std::to_string(uid) + " (key " + std::to_string(key) + ") which nobody offered in this round"); continue; }
            const UidInfo& u = U[uid];
            if (seen[uid]) fail(F + ".trav.element-twice", rec_str(*r) + " met " + uid_str(U, uid) + " twice");
            seen[uid] = 1;
            if (u.key != key) fail(F + ".trav.corrupt-value", rec_str(*r) + " met " + uid_str(U, uid) + " carrying key " + std::to_string(key));
            if (!u.pre) {
                if (!u.ok) fail(F + ".trav.unlinked-element-visible", rec_str(*r) + " met the element of an insert that reported failure: " + uid_str(U, uid));
                else if (!(u.call < r->ret)) fail(F + ".trav.element-from-the-future", rec_str(*r) + " met " + uid_str(U, uid));
            }
            if (!multi && !seen_cls.insert(u.cls).second) fail(F + ".trav.duplicate-key", rec_str(*r) + " met two elements of class " + std::to_string(u.cls) + " in a unique container (second: " + uid_str(U, uid) + ")");
            if (multi) seen_cls.insert(u.cls);
            if (ordered) { uint64_t o = ord_of(s.cfg, key / g); if (!first && o < prev_ord) fail(F + ".trav.out-of-order", rec_str(*r) + " met key " + std::to_string(key) + " after a key that the comparator (" + cmp_name[s.cfg.cmode] + ") puts behind it"); prev_ord = o; first = false; }
        }
        bool restrict_ = r->kind == K_TRAV_FROM; uint64_t start_ord = restrict_ ? ord_of(s.cfg, r->cls) : 0;
        if (restrict_ && !r->ok) continue;
        bool overl = false;
        for (size_t uid = 1; uid < U.size(); uid++) {
            const UidInfo& u = U[uid];
            if (u.attempted && u.thread != r->thread && u.call < r->ret && r->call + margin < u.ret) overl = true;
            if (!(u.pre || (u.attempted && u.ok && u.ret < r->call))) continue;
            if (restrict_ && ord_of(s.cfg, u.cls) <= start_ord) continue;
            st.must_see_checked++;
            if (!seen[uid]) fail(F + ".trav.missed-element", rec_str(*r) + " (" + std::to_string(tv.seen.size()) + " elements met) missed " + uid_str(U, (int)uid));
        }
        if (overl) st.trav_overlapping_insert++;
        if (!multi) for (auto& kv : cls) {
            bool must = kv.second.pre_count > 0;
            for (int uid : kv.second.ins) if (U[uid].ret < r->call) must = true;
            if (!must || (restrict_ && ord_of(s.cfg, kv.first) <= start_ord)) continue;
            if (!seen_cls.count(kv.first)) fail(F + ".trav.missed-key", rec_str(*r) + " met no element of class " + std::to_string(kv.first) + " although an insert of it had returned before the traversal began");
        }
    }
    // ---- quiescent comparison
    std::map<int, int> after = present;
    for (size_t uid = 1; uid < U.size(); uid++) if (U[uid].attempted && U[uid].ok) after[(int)uid] = U[uid].key;
    for (auto& e : after) if (!in_final[e.first]) fail(F + ".quiescent.lost-element", uid_str(U, e.first) + " is missing from the quiescent traversal (" + std::to_string(fin.trav.size()) + " elements, expected " + std::to_string(after.size()) + ")");
    std::set<int> fcls; uint64_t prev_ord = 0; bool first = true;
    for (auto& e : fin.trav) {
        int uid = e.second; if (uid <= 0 || (size_t)uid >= U.size()) continue;
        auto it = after.find(uid);
        if (it == after.end()) { if (U[uid].attempted) fail(F + ".quiescent.failed-insert-present", "the container holds the element of an insert that reported failure: " + uid_str(U, uid)); else fail(F + ".quiescent.unknown-element", "the container holds uid " + std::to_string(uid) + " (key " + std::to_string(e.first) + ") which is not part of the model (erased earlier or never offered)"); continue; }
        if (it->second != e.first) fail(F + ".quiescent.corrupt-value", uid_str(U, uid) + " carries key " + std::to_string(e.first));
        if (!multi && !fcls.insert(e.first / g).second) fail(F + ".quiescent.duplicate-key", "two elements of class " + std::to_string(e.first / g) + " in a unique container (second: " + uid_str(U, uid) + ")");
        if (ordered) { uint64_t o = ord_of(s.cfg, e.first / g); if (!first && o < prev_ord) fail(F + ".quiescent.out-of-order", "quiescent traversal: key " + std::to_string(e.first) + " after a key that the comparator (" + cmp_name[s.cfg.cmode] + ") puts behind it"); prev_ord = o; first = false; }
    }
    if (fin.size != fin.trav.size()) fail(F + ".quiescent.size-mismatch", "size() = " + std::to_string(fin.size) + " but the traversal met " + std::to_string(fin.trav.size()) + " elements (model " + std::to_string(after.size()) + ")");
    std::map<int, long> expect; for (auto& e : after) expect[e.second / g]++;
    for (auto& p : fin.per) {
        long ex = 0; auto it = expect.find(p.cls); if (it != expect.end()) ex = it->second;
        if (p.count != ex) fail(F + ".quiescent.count-mismatch", "count(" + std::to_string(p.key) + ") = " + std::to_string(p.count) + " at quiescence, the model holds " + std::to_string(ex) + " elements of class " + std::to_string(p.cls));
        if (p.contains != (ex > 0) || p.found != (ex > 0)) fail(F + ".quiescent.find-failed", "at quiescence contains(" + std::to_string(p.key) + ") = " + std::to_string(p.contains) + ", find " + (p.found ? "succeeded" : "failed") + ", the model holds " + std::to_string(ex) + " elements of class " + std::to_string(p.cls));
        if (p.found && ex > 0) { auto a = after.find(p.find_uid); if (a == after.end() || a->second / g != p.cls) fail(F + ".quiescent.find-wrong-element", "find(" + std::to_string(p.key) + ") returned uid " + std::to_string(p.find_uid)); }
    }
    present.swap(after);
    // ---- how concurrent was it: overlapping pairs on one class (at least one insert), interleaving signature
    std::unordered_map<int, std::vector<const Rec*>> by;
    for (const Rec* r : all) if (!is_trav(r->kind) || r->kind == K_TRAV_FROM) by[r->cls].push_back(r);
    for (auto& kv : by) {
        auto& v = kv.second;
        for (size_t i = 0; i < v.size(); i++) for (size_t j = i + 1; j < v.size(); j++) {
            const Rec *a = v[i], *b = v[j];
            if (a->thread == b->thread || !(is_insert(a->kind) || is_insert(b->kind))) continue;
            if (a->call + margin < b->ret && b->call + margin < a->ret) { st.overlap_pairs++; if (is_insert(a->kind) && is_insert(b->kind)) st.insert_races++; }
        }
    }
    std::vector<std::pair<uint64_t, uint32_t>> ev; ev.reserve(all.size() * 2);
    for (const Rec* r : all) { uint32_t code = ((uint32_t)r->thread << 8) | ((uint32_t)r->kind << 2) | (r->ok ? 2u : 0u); ev.emplace_back(r->call, code); ev.emplace_back(r->ret - margin, code | 1u); }
    std::sort(ev.begin(), ev.end());
    uint64_t sig = mix((uint64_t)s.kind * 16 + s.nthreads, (uint64_t)(ck_unordered(s.kind) ? s.cfg.hmode : s.cfg.cmode));
    for (auto& e : ev) sig = mix(sig, e.second);
    st.sig = sig;
}

static std::string history_json(Scen& s, size_t max_ops) {
    std::vector<const Rec*> all; for (int t = 0; t < s.nthreads; t++) for (auto& r : s.recs[t]) all.push_back(&r);
    std::sort(all.begin(), all.end(), [](const Rec* a, const Rec* b) { return a->call < b->call; });
    uint64_t t0 = all.empty() ? 0 : all[0]->call; uint64_t margin = s.ns_clock ? 2000 : 0;
    Json j; j.arr();
    size_t n = 0;
    for (const Rec* r : all) {
        if (n++ >= max_ops) break;
        j.arr(); j.val((int)r->thread); j.val(kind_name[r->kind]); j.val(r->key); j.val(r->uid);
        if (r->kind == K_COUNT) j.val(r->count); else if (is_trav(r->kind)) j.val((long)s.travs[r->thread][r->trav].seen.size()); else if (r->unknown) j.val("?"); else j.val(r->ok);
        j.val(r->seen_uid); j.val((unsigned long long)(s.ns_clock ? r->call - t0 : r->call)); j.val((unsigned long long)(s.ns_clock ? r->ret - margin - t0 : r->ret)); j.end_arr();
    }
    j.end_arr(); return j.s;
}
static const char* HIST_FORMAT = "[thread, operation, key, uid offered (inserts), result (bool / count / elements met), uid of the element the returned iterator points to, call stamp, return stamp]";

// ------------------------------------------------------------------------------------------------ main
// ------------------------------------------------------------------------------------------------ mode "pub": publication
// Tight rounds on a fresh container: inserters and readers run with NO harness-side synchronisation between the two barriers of a
// round (no clock, no shared log, no pauses), so the only happens-before edges a reader has to a node are the ones the container
// itself creates. The deciding oracle is the race detector / address sanitizer of the variant (an element, key or level pointer
// reached before it was published is a report); the round also checks conservation (size and a traversal == successful inserts).
// Found with it: equal_range/count of the ordered multi containers read the upper-level next pointers of a node that is still being
// linked; they had been stored relaxed (repaired in /repo by 9ea1c0e).
struct PubShared { void* cont = nullptr; Cfg cfg; int nU = 8; int kind = 0; int inserters = 2; int per = 24; uint64_t seed = 0; std::atomic<long> succ{0}, attempts{0}, reads{0}; long overlapped = 0; };
template <class C> static void pub_thread(PubShared& ps, int t, Barrier& b) {
    Rng r(mix(ps.seed, 0x9B + (uint64_t)t));
    if (t == 0) { if constexpr (is_unordered<C>::value) ps.cont = new C((size_t)1 << r.below(4), Hsh{ &ps.cfg }, Eq{ &ps.cfg }); else ps.cont = new C(Cmp{ &ps.cfg }); }
    b.wait();
    C& c = *(C*)ps.cont; const C& cc = c;
    long succ = 0, att = 0, reads = 0, bad = 0;
    const int g = ps.cfg.g;
    if (t < ps.inserters) {
        for (int i = 0; i < ps.per; i++) {
            int key = (int)r.below((uint64_t)ps.nU) * g + (g > 1 ? (int)r.below((uint64_t)g) : 0); int uid = 1 + t * 100000 + i; att++;
            tl_force_height = r.chance(1, 3) ? 1 + (int)r.below(6) : 0;
            bool ok;
            switch (r.below(3)) {
            case 0: ok = c.insert(mk<C>(key, uid)).second; break;
            case 1: { auto v = mk<C>(key, uid); ok = c.insert(v).second; break; }
            default: if constexpr (is_map<C>::value) ok = c.emplace(key, Tag(uid, key)).second; else ok = c.emplace(key, uid).second;
            }
            succ += ok;
        }
        tl_force_height = 0;
    } else {
        for (int i = 0; i < 2 * ps.per; i++) {
            int key = (int)r.below((uint64_t)ps.nU) * g; auto pk = probe<C>(key); reads++;
            switch (r.below(is_unordered<C>::value ? 5 : 7)) {
            case 0: { size_t n = cc.count(pk); (void)n; break; }
            case 1: { auto it = cc.find(pk); if (it != cc.end() && (v_key(*it) / g != key / g || v_tag(*it).uid <= 0)) bad++; break; }
            case 2: { bool x = cc.contains(pk); (void)x; break; }
            case 3: { auto pr = cc.equal_range(pk); int n = 0; for (auto it = pr.first; it != pr.second && n < 64; ++it, ++n) if (v_tag(*it).uid <= 0 || v_tag(*it).key != v_key(*it)) bad++; break; }
            case 4: { int n = 0; for (auto it = cc.begin(); it != cc.end() && n < 4096; ++it, ++n) if (v_tag(*it).uid <= 0 || v_tag(*it).key != v_key(*it)) bad++; break; }
            case 5: if constexpr (!is_unordered<C>::value) { auto it = cc.lower_bound(pk); if (it != cc.end() && v_tag(*it).uid <= 0) bad++; } break;
            default: if constexpr (!is_unordered<C>::value) { auto it = cc.upper_bound(pk); if (it != cc.end() && v_tag(*it).uid <= 0) bad++; } break;
            }
        }
    }
    ps.succ.fetch_add(succ, std::memory_order_relaxed); ps.attempts.fetch_add(att, std::memory_order_relaxed); ps.reads.fetch_add(reads, std::memory_order_relaxed);
    if (bad) fail(std::string("c12.") + fam(ps.kind) + ".pub.reader-met-unconstructed-element", std::to_string(bad) + " elements reached by a concurrent reader had no constructed payload or a payload of another key");
    b.wait();
    if (t == 0) {
        long n = 0; std::vector<int> keys; for (auto it = cc.begin(); it != cc.end(); ++it) { n++; keys.push_back(v_key(*it)); }
        long want = ps.succ.load();
        const std::string F = std::string("c12.") + fam(ps.kind);
        if ((long)cc.size() != want) fail(F + ".quiescent.size-mismatch", "pub round: size() " + std::to_string(cc.size()) + " but " + std::to_string(want) + " inserts reported success");
        if (n != want) fail(F + ".quiescent.lost-element", "pub round: traversal met " + std::to_string(n) + " elements but " + std::to_string(want) + " inserts reported success");
        if (!ck_multi(ps.kind)) { std::set<int> cls; for (int k : keys) if (!cls.insert(k / g).second) { fail(F + ".unique.two-equivalent-keys", "pub round: unique container holds two elements of class " + std::to_string(k / g)); break; } }
        if constexpr (!is_unordered<C>::value) for (size_t i = 1; i < keys.size(); i++) if (Cmp{ &ps.cfg }(keys[i], keys[i - 1])) { fail(F + ".order.traversal-not-sorted", "pub round: traversal out of comparator order at position " + std::to_string(i)); break; }
        delete (C*)ps.cont; ps.cont = nullptr;
    }
    b.wait();
}
typedef void (*PubFn)(PubShared&, int, Barrier&);
static const PubFn g_pub[CK_N] = { &pub_thread<UM>, &pub_thread<US>, &pub_thread<UMM>, &pub_thread<UMS>, &pub_thread<OM>, &pub_thread<OS>, &pub_thread<OMM>, &pub_thread<OMS>, &pub_thread<FS>, &pub_thread<FMS> };

static int run_pub(Result& R, long cases, long force_kind) {
    WatchdogCfg wcfg; wcfg.hard_limit_s = 400;
    watchdog_start(wcfg, [&](const HangInfo& hi) {
        std::string d = "no progress for " + std::to_string(hi.stalled_for) + "s; threads: " + hi.threads;
        if (!hi.quiescent && !hi.spin_stall) { R.inconclusive++; R.finish_and_exit(4); }
        R.violation(hi.quiescent ? "c12.hang.quiescent" : "c12.hang.spin-stall", d.substr(0, 1500), "{\"mode\":\"pub\"}");
        R.finish_and_exit(3);
    });
    const int NT = 4;
    PubShared ps; Barrier b(NT); std::atomic<bool> quit{false};
    Rng top(mix(R.seed, 0xB0B));
    std::vector<std::thread> th;
    // the driver is thread 0; helper threads follow the same sequence of rounds (the configuration is published by the first barrier)
    Barrier cfgb(NT);
    for (int t = 1; t < NT; t++) th.emplace_back([&, t] { for (;;) { cfgb.wait(); if (quit.load()) return; g_pub[ps.kind](ps, t, b); } });
    for (long done = 0; done < cases; done++) {
        ps.seed = top.next(); Rng r(ps.seed);
        ps.kind = force_kind >= 0 ? (int)force_kind : (int)r.below(CK_N);
        ps.cfg = Cfg(); ps.cfg.g = r.chance(1, 5) ? 2 : 1; ps.cfg.hmode = (int)r.below(H_NMODES); ps.cfg.base = r.next() & 0x3ff; ps.cfg.shift = (int)r.pick(std::vector<int>{ 1, 3, 4, 8, 16 }); ps.cfg.B = 1ull << (3 + r.below(5)); ps.cfg.cmode = (int)r.below(C_NMODES);
        ps.nU = (int)r.pick(std::vector<int>{ 1, 2, 4, 8, 12, 12, 16, 48 }); ps.inserters = 1 + (int)r.below(3); ps.per = (int)r.pick(std::vector<int>{ 8, 24, 24, 60 });
        ps.succ.store(0); ps.attempts.store(0); ps.reads.store(0);
        long live0 = g_live.load();
        cfgb.wait();
        g_pub[ps.kind](ps, 0, b);
        if (g_live.load() != live0) fail("c12.life.construct-destroy-imbalance", "pub round: " + std::to_string(g_live.load() - live0) + " element payloads still alive after the container was destroyed");
        R.scenarios++; R.nontrivial++; R.signature(mix((uint64_t)ps.kind * 131 + (uint64_t)ps.nU, (uint64_t)ps.succ.load() * 7 + (uint64_t)ps.inserters));
        R.stat("pub_rounds"); R.stat(std::string("pub_kind_") + cont_name[ps.kind]); R.stat("pub_insert_attempts", ps.attempts.load()); R.stat("pub_successful_inserts", ps.succ.load()); R.stat("pub_concurrent_reads", ps.reads.load());
        R.stat("ops", ps.attempts.load() + ps.reads.load());
        if (g_fails.load()) {
            Json j; j.obj(); j.kv("mode", "pub"); j.kv("container", cont_name[ps.kind]); j.kv("round_seed", (unsigned long long)ps.seed); j.kv("distinct_classes", ps.nU); j.kv("inserting_threads", ps.inserters); j.kv("inserts_per_thread", ps.per);
            j.kv("replay", "c12 --mode pub --seed " + std::to_string(R.seed) + " --cases " + std::to_string(done + 1)); j.end_obj();
            R.violation(g_fail_key, g_fail_detail.substr(0, 1400), j.s); g_fails.store(0);
        }
        progress();
    }
    quit.store(true); cfgb.wait(); for (auto& x : th) x.join();
    watchdog_stop();
#if VRT_ASAN
    __lsan_do_leak_check();
#endif
    R.finish_and_exit(0);
    return 0;
}

int main(int argc, char** argv) {
    Args a = standard_init(argc, argv, "c12");
    Result& R = result();
    long cases = a.num("cases", 2000);
    bool light = (R.variant == "tsan") || a.has("light");
    long fixed_scn = a.num("scn", 0);
    long force_threads = a.num("threads", 0), force_kind = a.num("kind", -1);
    int cpus = (int)a.num("cpus", 0);
    g_drop_sl_handles = a.has("drop-sl-handles");
    const std::string mode = R.mode;
    if (mode == "pub") return run_pub(R, cases, force_kind);
    std::vector<int> ids_uo = { 160, 161, 162, 163 }, ids_sl = { 164, 165, 166 };
    Rng top(mix(R.seed, 0xC12));
    tbb::global_control gc(tbb::global_control::max_allowed_parallelism, 16);

    WatchdogCfg wcfg; wcfg.hard_limit_s = 400;       // on a loaded box a looping thread needs a while to burn the 10 s of CPU a spin-stall verdict asks for
    watchdog_start(wcfg, [&](const HangInfo& hi) {
        Scen* s = g_cur.load();
        std::string d = "no progress for " + std::to_string(hi.stalled_for) + "s; threads: " + hi.threads + "\n" + rings_dump();
        // no container operation ever waits for another harness thread: every stall inside an operation is the container's
        if (!hi.quiescent && !hi.spin_stall) { R.inconclusive++; fprintf(stderr, "[c12] watchdog: inconclusive stall\n%s\n", d.c_str()); R.finish_and_exit(4); }
        R.violation(hi.quiescent ? "c12.hang.quiescent" : "c12.hang.spin-stall", d.substr(0, 1500), s ? s->describe() : "{}");
        R.finish_and_exit(3);
    });

    std::atomic<bool> quit{false};
    std::atomic<uint64_t> gen{0};
    std::atomic<int> done_cnt{0};
    std::atomic<Scen*> cur{nullptr};
    std::vector<std::thread> pool;
    for (int t = 0; t < 4; t++) pool.emplace_back([&, t] {
        uint64_t seen = 0;
        for (;;) {
            polite_wait([&] { return gen.load(std::memory_order_acquire) != seen; });
            seen++;
            if (quit.load()) return;
            Scen* s = cur.load();
            if (t < s->nthreads) { s->start->wait(); s->run(*s, t); }
            done_cnt.fetch_add(1, std::memory_order_release);
        }
    });

    if (!fixed_scn) for (int k = 0; k < CK_N; k++) {
        Scen s; s.kind = k; s.init_buckets = 8; long live0 = g_live.load();
        g_vt[k].selftest(s);
        if (g_live.load() != live0) fail("c12.life.construct-destroy-imbalance", "range self-test: " + std::to_string(g_live.load() - live0) + " element payloads still alive");
        if (g_fails.load()) { Json j; j.obj(); j.kv("container", cont_name[k]); j.kv("part", "sequential fill + parallel_for over range()"); j.end_obj(); R.violation(g_fail_key, g_fail_detail.substr(0, 1400), j.s); g_fails.store(0); }
        R.stat("range_selftests");
    }

    for (long done = 0; done < cases; done++) {
        Scen s; s.seed = fixed_scn ? (uint64_t)fixed_scn : top.next() >> 1;
        Rng r(s.seed);
        gen_config(s, r, mode, force_kind, force_threads, light);
        s.clk.ns = s.ns_clock;
        gen_universe(s, r);
        const VT& vt = g_vt[s.kind];
        s.run = vt.run;
        long live0 = g_live.load();
        vt.build(s);
        std::map<int, int> present; for (auto& e : s.prefill_elems) present[e.second] = e.first;
        g_cur.store(&s); cur.store(&s);
        RoundStats tot; size_t buckets0 = vt.buckets(s), buckets1 = buckets0; size_t total_ops = 0;
        bool sample_ok = false;
        for (int round = 0; round < s.rounds && !g_fails.load(); round++) {
            gen_plan(s, r, cpus, mode, round);
            size_t ins_elems = 0; for (auto& p : s.plan) for (auto& o : p) { total_ops++; if (is_insert(o.kind)) ins_elems += 1 + (o.kind == K_INS_RANGE ? o.nx : 0); }
            s.max_elems = present.size() + ins_elems;
            for (int t = 0; t < 4; t++) { s.recs[t].clear(); s.recs[t].reserve(128); s.travs[t].clear(); s.last_done[t].store(-1, std::memory_order_relaxed); }
            uint64_t h162 = hook_count(162), h161 = hook_count(161), h166 = hook_count(166);
            perturb_random(top, ck_unordered(s.kind) ? ids_uo : ids_sl);
            s.start.reset(new Barrier(s.nthreads));
            done_cnt.store(0);
            gen.fetch_add(1, std::memory_order_release);
            polite_wait([&] { return done_cnt.load(std::memory_order_acquire) >= 4; });
            perturb().clear();
            buckets1 = vt.buckets(s);
            long d162 = (long)(hook_count(162) - h162), dcas = (long)(hook_count(161) - h161 + hook_count(166) - h166);
            // ---- quiescent probing + oracle
            std::set<int> cset; for (auto& e : present) cset.insert(e.second / s.cfg.g);
            for (int t = 0; t < s.nthreads; t++) for (auto& rc : s.recs[t]) cset.insert(rc.cls);
            std::vector<int> classes(cset.begin(), cset.end());
            if (classes.size() > 48) { for (size_t i = classes.size(); i > 1; i--) std::swap(classes[i - 1], classes[r.below(i)]); classes.resize(48); }
            Final fin; bool deep = round + 1 == s.rounds && r.chance(1, 3);
            vt.probe(s, fin, classes, deep);
            RoundStats st; check_round(s, present, fin, st);
            tot.overlap_pairs += st.overlap_pairs; tot.insert_races += st.insert_races; tot.trav_overlapping_insert += st.trav_overlapping_insert; tot.sig = mix(tot.sig, st.sig);
            R.stat("rounds"); R.stat("lookups_after_completed_insert", st.lookups_forced); R.stat("failed_unique_inserts", st.failed_inserts); R.stat("classes_with_2plus_inserts", st.contested_classes);
            R.stat("traversals", st.travs); R.stat("traversals_overlapping_an_insert", st.trav_overlapping_insert); R.stat("traversal_must_see_elements", st.must_see_checked);
            R.stat("overlapping_pairs_same_class", st.overlap_pairs); R.stat("overlapping_insert_pairs_same_class", st.insert_races);
            R.stat("init_bucket_during_concurrent_phase", d162); R.stat("cas_failures_during_concurrent_phase", dcas);
            if (d162 > 0) R.stat("rounds_with_init_bucket_racing_operations");
            if (deep) R.stat("deep_quiescent_probes");
            R.stat_max("max_elements", (long long)fin.trav.size());
            if (st.overlap_pairs >= 3 && (buckets1 != buckets0 || !ck_unordered(s.kind))) sample_ok = true;
            if (g_fails.load()) break;
            if (round + 1 < s.rounds) { vt.mutate(s, r, present); R.stat("quiescent_mutation_rounds"); }
            progress();
        }
        if (s.free_pool) { s.free_pool(s); s.free_pool = nullptr; } s.nh_elems.clear();
        bool failed = g_fails.load() != 0;
        std::string hist; if (failed || (sample_ok && R.want_sample())) hist = history_json(s, failed ? 160 : 40);
        vt.destroy(s);
        if (g_live.load() != live0) fail("c12.life.construct-destroy-imbalance", "after destroying the container " + std::to_string(g_live.load() - live0) + " element payloads are still alive (negative: destroyed twice)");
        g_cur.store(nullptr);

        R.scenarios++;
        R.stat("ops", (long long)total_ops);
        R.stat(std::string("kind_") + cont_name[s.kind]);
        if (ck_unordered(s.kind)) { R.stat(std::string("hash_") + hash_name[s.cfg.hmode]); if (buckets1 != buckets0) R.stat("scenarios_table_grew"); R.stat_max("max_buckets", (long long)buckets1); }
        else R.stat(std::string("cmp_") + cmp_name[s.cfg.cmode]);
        if (s.ns_clock) R.stat("scenarios_ns_clock");
        if (tot.overlap_pairs > 0 || tot.trav_overlapping_insert > 0) { R.nontrivial++; R.signature(tot.sig); R.stat(std::string("nontrivial_") + (ck_unordered(s.kind) ? "unordered" : "ordered")); }
        if (g_fails.load()) {
            Json j; j.obj(); j.key("scenario").raw(s.describe()); j.kv("format", HIST_FORMAT); j.kv("clock", s.ns_clock ? "ns since first call (A precedes B only if A.return + 2000 < B.call)" : "global sequence counter"); j.key("history_last_round").raw(hist.empty() ? "[]" : hist); j.end_obj();
            R.violation(g_fail_key, g_fail_detail.substr(0, 1400) + " (" + std::to_string(g_fails.load()) + " failed checks in this scenario)", j.s);
            g_fails.store(0);
            if (R.violations_total <= 5) R.write();
        } else if (sample_ok && R.want_sample() && !hist.empty()) {
            Json j; j.obj(); j.key("scenario").raw(s.describe()); j.kv("buckets_before", (unsigned long long)buckets0); j.kv("buckets_after", (unsigned long long)buckets1);
            j.kv("overlapping_pairs_same_class", tot.overlap_pairs); j.kv("format", HIST_FORMAT); j.key("first_40_operations_of_last_round").raw(hist); j.end_obj(); R.sample(j.s);
        }
        progress();
    }
    quit.store(true); gen.fetch_add(1);
    for (auto& t : pool) t.join();
    watchdog_stop();
    R.stat("hook_delays", (long long)perturb().delays.load());
    // TBB workers (parallel_for over range()) may still pass hook points: leave without running static destructors
#if VRT_ASAN
    __lsan_do_leak_check();
#endif
    R.finish_and_exit(0);
}
