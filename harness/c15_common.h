// C15 harness: shared infrastructure (scenario record, stamps, thread crew, warm arenas, logging sinks, producers, FIFO oracle)
#pragma once
#include "vrt_tbb.h"
#include <oneapi/tbb/flow_graph.h>
#include <oneapi/tbb/task_arena.h>
#include <oneapi/tbb/global_control.h>
#include <optional>
#include <memory>
#include <tuple>
#include <array>
#include <deque>
#include <functional>

using namespace vrt;
namespace fl = tbb::flow;
static constexpr auto RLX = std::memory_order_relaxed;

static bool g_light = false;                       // tsan: no global stamps (they would add happens-before edges)
static std::atomic<uint64_t> g_seq{1};
static inline uint64_t stamp() { return g_light ? 0 : g_seq.fetch_add(1, RLX); }
template <class T> static inline void atomic_max(std::atomic<T>& a, T v) { T c = a.load(RLX); while (v > c && !a.compare_exchange_weak(c, v, RLX)) {} }
static std::atomic<const char*> g_phase{"idle"};   // what the driver is waiting for (for the watchdog's text)
static std::atomic<bool> g_resv_outstanding{false};   // ring class: a reservation made by the harness is outstanding (grow observer)
static std::atomic<long long> g_grows{0}, g_grows_reserved{0}, g_max_grow{0}, g_task_puts{0};

// ---------------------------------------------------------------------------------------------- scenario record
struct Scn {
    std::string cls;                 // scenario class = first part of the violation keys
    uint64_t seed = 0; int conc = 0;
    std::string params;              // human readable parameters
    std::mutex m; int fails = 0; std::string key, detail;
    std::atomic<int> active{0};      // producers still putting
    std::atomic<long> witness{0};    // consumer-side events that happened while a producer was still active
    std::atomic<uint64_t> tmask{0};
    uint64_t sig = 0;                // interleaving signature (filled by the class)
    std::string sample;              // optional sample JSON body (raw members)
    void touch() { uint64_t b = 1ull << (thread_ordinal() & 63); if (!(tmask.load(RLX) & b)) tmask.fetch_or(b, RLX); }
    void consumer_event() { touch(); if (active.load(RLX) > 0) witness.fetch_add(1, RLX); }
    int threads() const { return __builtin_popcountll(tmask.load(RLX)); }
    void fail(const std::string& k, const std::string& d) {
        std::lock_guard<std::mutex> l(m);
        if (fails++ == 0) { key = k; detail = d.substr(0, 1400); }
    }
    std::string describe() const {
        Json j; j.obj(); j.kv("class", cls); j.kv("scenario_seed", (unsigned long long)seed); j.kv("arena", conc); j.kv("params", params);
        j.kv("replay", "c15 --mode " + cls + " --one " + std::to_string(seed) + " --conc " + std::to_string(conc) + " --repeat 2000"); j.end_obj(); return j.s;
    }
};
template <class V> static std::string join_ints(const V& v, size_t from = 0, size_t maxn = 40) {
    std::string s; size_t n = 0; for (size_t i = from; i < v.size() && n < maxn; i++, n++) { s += std::to_string((long long)v[i]); s += ' '; } if (from + n < v.size()) s += "..."; return s;
}

// ---------------------------------------------------------------------------------------------- thread crew (lives for the whole process)
struct Crew {
    static constexpr int kMax = 14;
    std::vector<std::thread> th; std::mutex m; std::condition_variable cv, cvd;
    std::function<void(int)> job; int want = 0; uint64_t gen = 0; int done = 0; bool quit = false;
    std::atomic<int> arrived{0};
    Crew() {
        for (int i = 0; i < kMax; i++) th.emplace_back([this, i] {
            uint64_t seen = 0;
            for (;;) {
                std::function<void(int)> f; int k;
                { std::unique_lock<std::mutex> l(m); cv.wait(l, [&] { return quit || (gen != seen && i < want); }); if (quit) return; seen = gen; f = job; k = want; }
                arrived.fetch_add(1);
                int spins = 0; while (arrived.load() < k) { if (++spins > 100) sched_yield(); else _mm_pause(); }   // common start
                f(i);
                { std::lock_guard<std::mutex> l(m); if (++done == k) cvd.notify_all(); }
            }
        });
    }
    void start(int k, std::function<void(int)> f) {
        if (k > kMax) k = kMax;
        std::lock_guard<std::mutex> l(m); job = std::move(f); want = k; done = 0; arrived.store(0); gen++; cv.notify_all();
    }
    void join() { std::unique_lock<std::mutex> l(m); cvd.wait(l, [&] { return done == want; }); want = 0; }
    void run(int k, std::function<void(int)> f) { if (k <= 0) return; start(k, std::move(f)); join(); }
};
static Crew& crew() { static Crew* c = new Crew; return *c; }

// ---------------------------------------------------------------------------------------------- warm arenas (never destroyed)
struct Warm {
    tbb::task_arena arena; int conc;
    std::atomic<bool> on{false}, cooled{false};
    std::atomic<long> enq{0}, ran{0};
    std::thread th;
    explicit Warm(int c) : arena(c, 1), conc(c) {
        arena.initialize();
        th = std::thread([this] {
            for (;;) {
                suspend_gate();
                if (!on.load(RLX) || cooled.load(RLX)) { sleep_us(2000); continue; }
                if (enq.load(RLX) - ran.load(RLX) < 128)
                    for (int i = 0; i < 3; i++) { enq.fetch_add(1, RLX); arena.enqueue([this] { spin_iters(300); ran.fetch_add(1, std::memory_order_release); }); }
                sleep_us(60);
            }
        });
        th.detach();
    }
};
static std::vector<Warm*>& warms() { static std::vector<Warm*>* v = new std::vector<Warm*>; return *v; }

struct GraphBox {       // a graph attached to a chosen arena
    std::optional<fl::graph> og;
    explicit GraphBox(tbb::task_arena& a) { a.execute([&] { og.emplace(); }); }
    fl::graph& g() { return *og; }
};

static inline void pace(Rng& r, int pattern) {
    switch (pattern) {
    case 0: break;
    case 1: if (r.chance(1, 6)) sched_yield(); break;
    case 2: if (r.chance(1, 4)) spin_iters((unsigned)r.below(3000)); break;
    case 3: if (r.chance(1, 16)) sleep_us(20 + (unsigned)r.below(120)); break;
    default: spin_iters((unsigned)r.below(300)); break;
    }
}

// ---------------------------------------------------------------------------------------------- serial logging sink
template <class T> struct LogSink;
template <class T> struct SinkBody { LogSink<T>* p; fl::continue_msg operator()(const T& v) const; };
enum { SK_ACCEPT = 0, SK_REJECT = 1, SK_LIGHT = 2 };
template <class T> struct LogSink {
    Scn& s; int kind;
    std::vector<T> log; std::vector<uint64_t> at;      // plain: the sink is serial (TSan watches the exclusion)
    std::atomic<int> inside{0};
    unsigned dden = 0, diters = 0; uint64_t dseed = 0; int dkind = 0;
    std::function<void(const T&)> pre;                 // extra action at entry
    std::unique_ptr<fl::graph_node> node; fl::receiver<T>* in = nullptr; fl::sender<fl::continue_msg>* out = nullptr;
    LogSink(Scn& s_, fl::graph& g, int kind_, Rng& r, size_t reserve = 64) : s(s_), kind(kind_) {
        log.reserve(reserve); at.reserve(reserve);
        unsigned d = (unsigned)r.below(10);
        if (d < 3) dden = 0; else if (d < 6) { dden = 2 + (unsigned)r.below(6); diters = 200 + (unsigned)r.below(2500); } else if (d < 8) { dden = 1; diters = 100 + (unsigned)r.below(1200); } else { dden = 3 + (unsigned)r.below(8); diters = 3000 + (unsigned)r.below(15000); dkind = (int)r.below(3); }
        dseed = r.next();
        if (kind == SK_REJECT) { auto* p = new fl::function_node<T, fl::continue_msg, fl::rejecting>(g, fl::serial, SinkBody<T>{ this }); node.reset(p); in = p; out = p; }
        else if (kind == SK_LIGHT) { auto* p = new fl::function_node<T, fl::continue_msg, fl::lightweight>(g, fl::serial, SinkBody<T>{ this }); node.reset(p); in = p; out = p; }
        else { auto* p = new fl::function_node<T, fl::continue_msg, fl::queueing>(g, fl::serial, SinkBody<T>{ this }); node.reset(p); in = p; out = p; }
    }
    void body(const T& v) {
        if (inside.fetch_add(1, RLX) != 0) s.fail("c15." + s.cls + ".serial-sink-overlap", "the serial logging sink was entered while another invocation of it was running");
        s.consumer_event();
        uint64_t t = stamp();
        if (pre) pre(v);
        size_t n = log.size();
        log.push_back(v); at.push_back(t);
        if (dden) { uint64_t h = mix(dseed, n); if (h % dden == 0) { if (dkind == 1) sched_yield(); else if (dkind == 2) sleep_us(10 + (unsigned)((h >> 20) % 60)); else spin_iters((unsigned)((h >> 20) % (diters + 1))); } }
        inside.fetch_sub(1, RLX);
        progress();
    }
};
template <class T> fl::continue_msg SinkBody<T>::operator()(const T& v) const { p->body(v); return fl::continue_msg(); }

// ---------------------------------------------------------------------------------------------- producers
struct Put { uint64_t call = 0, ret = 0; bool ok = false, done = false; };
static constexpr int kIdBits = 12, kIdMask = (1 << kIdBits) - 1;       // id = producer << 12 | index
static inline int mkid(int p, int i) { return (p << kIdBits) | i; }
struct Producers;
struct FeedBody { Producers* ps; int p; fl::continue_msg operator()(const int& i) const; };
// A set of producers for one input port. Producer p issues puts 0..n[p]-1 in that order, either directly from an external thread
// or (via_task) from graph tasks: the external thread hands the indices to an unlimited function_node whose body does the put,
// so those puts arrive from worker threads in any order.
struct Producers {
    Scn& s; int np = 0; std::vector<int> n; std::vector<char> via_task; std::vector<std::vector<Put>> puts; std::vector<std::vector<long>> payload;
    std::function<bool(int p, int i)> put;           // performs the put of (p,i); returns what try_put returned
    std::vector<std::unique_ptr<fl::function_node<int, fl::continue_msg>>> feeders;
    int pattern = 0;
    std::atomic<long> completed{0};             // puts that have returned (relaxed: no happens-before edge)
    Producers(Scn& s_, fl::graph& g, Rng& r, int np_, int nmin, int nmax, bool allow_tasks) : s(s_), np(np_) {
        n.resize(np); via_task.resize(np); puts.resize(np); payload.resize(np); feeders.resize(np);
        for (int p = 0; p < np; p++) {
            n[p] = (int)r.range(nmin, nmax); puts[p].resize(n[p]); payload[p].assign(n[p], 0);
            via_task[p] = allow_tasks && r.chance(1, 4);
            if (via_task[p]) feeders[p].reset(new fl::function_node<int, fl::continue_msg>(g, fl::unlimited, FeedBody{ this, p }));
        }
        pattern = (int)r.below(5);
    }
    long pv(int p, int i) const { return (long)mix(s.seed ^ 0x5151, (uint64_t)mkid(p, i)); }
    void one(int p, int i) {
        Put& u = puts[p][i];
        payload[p][i] = pv(p, i);                    // plain write, read by the consumer side
        s.touch();
        u.call = stamp(); u.ok = put(p, i); u.ret = stamp(); u.done = true; completed.fetch_add(1, RLX);
    }
    void run_producer(int p, uint64_t seed) {         // body of the external thread of producer p
        Rng r(seed);
        s.active.fetch_add(1, RLX);
        for (int i = 0; i < n[p]; i++) { if (via_task[p]) feeders[p]->try_put(i); else one(p, i); pace(r, pattern); }
        if (!via_task[p]) s.active.fetch_sub(1, RLX);
    }
    bool waited = false;
    void after_wait() { if (waited) return; waited = true; for (int p = 0; p < np; p++) if (via_task[p]) s.active.fetch_sub(1, RLX); }   // call once the graph is idle
    bool check_payload(int p, int i) const { return p >= 0 && p < np && i >= 0 && i < n[p] && payload[p][i] == pv(p, i); }
    int total() const { int t = 0; for (int x : n) t += x; return t; }
    bool ordered(int p) const { return !via_task[p]; }
};
inline fl::continue_msg FeedBody::operator()(const int& i) const { ps->one(p, i); g_task_puts.fetch_add(1, RLX); return fl::continue_msg(); }

// ---------------------------------------------------------------------------------------------- FIFO oracle
// out: ids in the order in which they left the node (one consumer). Checks: only known ids, each at most once, only accepted puts,
// nothing lost (or, with allow_leftover: what was not consumed is a suffix of every ordered producer's puts), per-producer order,
// and (stamps available) A.ret < B.call => A leaves before B.
// leftover: 0 = everything accepted must be in `out`; 1 = what is missing is still inside the node (per ordered producer a suffix of its puts);
// 2 = `out` is what ONE of several consumers took (a subsequence: only the relative order of its own items is checked)
static void check_fifo(Scn& s, const std::string& K, const Producers& ps, const std::vector<int>& out, int leftover, bool order, const std::string& what) {
    const bool allow_leftover = leftover != 0;
    std::vector<int> pos((size_t)ps.np << kIdBits, -1);
    for (size_t k = 0; k < out.size(); k++) {
        int id = out[k], p = id >> kIdBits, i = id & kIdMask;
        if (id < 0 || p >= ps.np || i >= ps.n[p]) { s.fail(K + ".phantom", what + ": value " + std::to_string(id) + " at output position " + std::to_string(k) + " was never put"); continue; }
        if (pos[id] >= 0) { s.fail(K + ".duplicate", what + ": item " + std::to_string(p) + ":" + std::to_string(i) + " left the node twice (positions " + std::to_string(pos[id]) + " and " + std::to_string(k) + ")"); continue; }
        pos[id] = (int)k;
        if (!ps.puts[p][i].ok) s.fail(K + ".rejected-put-delivered", what + ": item " + std::to_string(p) + ":" + std::to_string(i) + " came out although its try_put returned false");
        if (!ps.check_payload(p, i)) s.fail(K + ".payload-not-visible", what + ": the word written before try_put of item " + std::to_string(p) + ":" + std::to_string(i) + " is not visible after the node");
    }
    for (int p = 0; p < ps.np; p++) {
        int last = -1, lasti = -1; int gap = -1;
        for (int i = 0; i < ps.n[p]; i++) {
            int q = pos[mkid(p, i)];
            if (!ps.puts[p][i].ok) continue;
            if (q < 0) { if (!allow_leftover) s.fail(K + ".lost", what + ": item " + std::to_string(p) + ":" + std::to_string(i) + " (try_put returned true) never came out; " + std::to_string(out.size()) + " items came out of " + std::to_string(ps.total())); if (gap < 0) gap = i; continue; }
            if (!order || !ps.ordered(p)) continue;
            if (gap >= 0 && leftover == 1) s.fail(K + ".producer-order", what + ": item " + std::to_string(p) + ":" + std::to_string(i) + " came out although the earlier item " + std::to_string(p) + ":" + std::to_string(gap) + " of the same producer is still inside");
            if (q < last) s.fail(K + ".producer-order", what + ": item " + std::to_string(p) + ":" + std::to_string(i) + " (position " + std::to_string(q) + ") overtook item " + std::to_string(p) + ":" + std::to_string(lasti) + " (position " + std::to_string(last) + ") of the same producer");
            last = q; lasti = i;
        }
    }
    if (!order || g_light) return;
    struct E { uint64_t call, ret; int pos, id; };
    std::vector<E> all;
    for (int p = 0; p < ps.np; p++) for (int i = 0; i < ps.n[p]; i++) { const Put& u = ps.puts[p][i]; if (!u.ok || !u.done) continue; int q = pos[mkid(p, i)]; if (q < 0 && leftover == 2) continue; all.push_back(E{ u.call, u.ret, q < 0 ? INT32_MAX : q, mkid(p, i) }); }
    std::vector<E> byret = all;
    std::sort(all.begin(), all.end(), [](const E& a, const E& b) { return a.call < b.call; });
    std::sort(byret.begin(), byret.end(), [](const E& a, const E& b) { return a.ret < b.ret; });
    size_t j = 0; int maxpos = -1, maxid = -1;
    for (auto& b : all) {
        while (j < byret.size() && byret[j].ret < b.call) { if (byret[j].pos > maxpos) { maxpos = byret[j].pos; maxid = byret[j].id; } j++; }
        if (b.pos != INT32_MAX && b.pos < maxpos) {
            s.fail(K + ".realtime-order", what + ": item " + std::to_string(b.id >> kIdBits) + ":" + std::to_string(b.id & kIdMask) + " left at position " + std::to_string(b.pos) + " although item " + std::to_string(maxid >> kIdBits) + ":" + std::to_string(maxid & kIdMask) +
                   ", whose try_put had returned before this one was called, " + (maxpos == INT32_MAX ? std::string("is still inside") : "left at position " + std::to_string(maxpos)));
            break;
        }
    }
}
// signature of an output sequence: which producer each item came from (the interleaving at the node's port)
static uint64_t seq_sig(uint64_t h, const std::vector<int>& out) { for (int id : out) h = mix(h, (uint64_t)(id >> kIdBits) + 1); return h; }
static int switches(const std::vector<int>& out) { int sw = 0; for (size_t i = 1; i < out.size(); i++) if ((out[i] >> kIdBits) != (out[i - 1] >> kIdBits)) sw++; return sw; }
