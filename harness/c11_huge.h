// C11 class H: sizes >= 2^31 / >= 2^32 at no memory cost. The allocator hands out lazily committed address space
// (mmap MAP_NORESERVE) and the element's default construction touches nothing, so grow_to_at_least(2^36) only costs CPU time.
// Checked: the call returns (watchdog: the constructor ticks progress, so a stall is a real stall), the returned ranges tile
// [old size, n), size()/capacity(), and the index -> address map at every 2^k, 2^k+-1, n-1 and random indices against the blocks
// the allocator handed out (distinct indices -> distinct addresses).
#pragma once
#include "c11_growth.h"

namespace c11 {

inline void run_huge(Engine& E, Rng& r, uint64_t n, int nthreads, uint64_t old_size) {
    Result& R = result(); HangCtx& hc = hang_ctx();
    Json pj; pj.obj(); pj.kv("class", "H"); pj.kv("n", (unsigned long long)n); pj.kv("threads", nthreads); pj.kv("old_size", (unsigned long long)old_size); pj.end_obj();
    hc.begin('H', pj.s);
    Verdict vd;
    CtxScope cx; cx->lazy = true;
    struct Got { uint64_t target = 0, start = 0, count = 0; bool threw = false; } got[Pool::kMax];
    double t0 = now_s();
    long addr_checked = 0;
    {
        HugeVec v;
        ThreadLocal& T0 = tl(); T0 = ThreadLocal{}; T0.tid = kPreTid;
        if (old_size) v.grow_by((size_t)old_size);
        hc.phase.store(1);
        E.pool.run(nthreads, [&](int t) {
            ThreadLocal& T = tl(); T = ThreadLocal{}; T.tid = t;
            Got& g = got[t];
            g.target = nthreads == 1 ? n : old_size + (n - old_size) / (uint64_t)nthreads * (uint64_t)(t + 1);
            if (t == nthreads - 1) g.target = n;
            InCall ic(t, K_GTAL, (long)g.target);
            try { HugeVec::iterator it = v.grow_to_at_least((size_t)g.target); g.start = (uint64_t)(it - v.begin()); g.count = g.start < g.target ? g.target - g.start : 0; }
            catch (std::exception&) { g.threw = true; }
            progress();
        });
        hc.phase.store(3);
        std::vector<Got*> gs; for (int t = 0; t < nthreads; t++) { if (got[t].threw) vd.fail("unexpected-exception", "grow_to_at_least(" + std::to_string(got[t].target) + ") threw"); if (got[t].count) gs.push_back(&got[t]); }
        std::sort(gs.begin(), gs.end(), [](Got* a, Got* b) { return a->start < b->start; });
        uint64_t pos = old_size;
        for (Got* g : gs) { if (g->start != pos) vd.fail("ranges-do-not-tile", "appended ranges leave a gap or overlap at index " + std::to_string(pos) + " (next range starts at " + std::to_string(g->start) + ")"); pos = g->start + g->count; }
        if (pos != n) vd.fail("ranges-do-not-tile", "appended ranges end at " + std::to_string(pos) + ", n = " + std::to_string(n));
        uint64_t sz = v.size(), cap = v.capacity();
        if (sz != n) vd.fail("size-after-grow_to_at_least", "size() = " + std::to_string(sz) + " after grow_to_at_least(" + std::to_string(n) + ") on a vector of " + std::to_string(old_size));
        if (cap < n) vd.fail("capacity-after-grow_to_at_least", "capacity() = " + std::to_string(cap) + " < n = " + std::to_string(n));
        if (vd.ok()) {
            std::vector<uint64_t> idx{ 0, n - 1, n / 2, old_size ? old_size - 1 : 0, old_size < n ? old_size : 0 };
            for (unsigned k = 1; k < 63 && seg_base(k) <= n; k++) { uint64_t b = seg_base(k); idx.push_back(b - 1); if (b < n) idx.push_back(b); if (b + 1 < n) idx.push_back(b + 1); }
            for (int i = 0; i < 3000; i++) idx.push_back(r.below(n));
            for (int i = 0; i < 500; i++) { unsigned k = 1 + (unsigned)r.below(seg_of(n - 1) + 1); uint64_t x = seg_base(k) + r.below(seg_base(k)); if (x < n) idx.push_back(x); }
            std::sort(idx.begin(), idx.end()); idx.erase(std::unique(idx.begin(), idx.end()), idx.end());
            const HugeElem* p0 = &v[0];
            Region* r0 = cx->find((uintptr_t)p0);
            uint64_t fbn = r0 ? r0->n.load() : 0;
            if (!r0 || r0->base.load() != (uintptr_t)p0 || fbn < 2 || (fbn & (fbn - 1))) vd.fail("layout-first-block", "index 0 does not start a block of 2^k >= 2 slots");
            std::set<uintptr_t> seen;
            for (uint64_t i : idx) {
                if (!vd.ok()) break;
                const HugeElem* p = &v[i];
                const HugeElem* want;
                if (i < fbn) want = p0 + i;
                else {
                    uint64_t b = seg_base(seg_of(i));
                    const HugeElem* sb = &v[b];
                    Region* rg = cx->find((uintptr_t)sb);
                    if (!rg || rg->base.load() != (uintptr_t)sb || rg->n.load() != b) { vd.fail("layout-segment", "index " + std::to_string(b) + " does not start a block of " + std::to_string(b) + " slots"); break; }
                    want = sb + (i - b);
                }
                if (p != want) vd.fail("layout-index-address", "index " + std::to_string(i) + " is at " + hex64((uintptr_t)p) + ", expected " + hex64((uintptr_t)want));
                else if (&*(v.begin() + (std::ptrdiff_t)i) != p || &v.at(i) != p) vd.fail("iterator-address-mismatch", "index " + std::to_string(i) + ": begin()+i / at(i) disagree with operator[]");
                else if (!seen.insert((uintptr_t)p).second) vd.fail("two-indices-one-address", "index " + std::to_string(i) + " shares its address with another index");
                addr_checked++;
            }
        }
        T0.tid = -1;
    }
    double dt = now_s() - t0;
    if (cx->live_regions(false)) vd.fail("storage-leaked-after-destruction", std::to_string(cx->live_regions(false)) + " blocks were not returned");
    { std::lock_guard<std::mutex> l(cx->m); for (auto& f : cx->flags) vd.fail(f.first, f.second); }
    R.scenarios++; R.nontrivial++; R.signature(mix(mix(n, (uint64_t)nthreads), old_size));
    R.stat("H_scenarios"); R.stat("H_addresses_checked", addr_checked); R.stat_max("max_H_size_log2", seg_of(n));
    if (n >= (1ull << 31)) R.stat("H_sizes_reached_ge_2^31"); if (n >= (1ull << 32)) R.stat("H_sizes_reached_ge_2^32");
    R.stat_max("max_H_seconds_for_one_size", (long long)dt);
    if (!vd.ok()) R.violation(key_of('H', vd.what), vd.detail, pj.s);
    else if (R.want_sample()) { Json j; j.obj(); j.kv("class", "H"); j.kv("n", (unsigned long long)n); j.kv("threads", nthreads); j.kv("old_size", (unsigned long long)old_size); j.kv("seconds", dt); j.kv("addresses_checked", addr_checked); j.end_obj(); R.sample(j.s); }
}

} // namespace c11
