// C20: a suspended task continues exactly once, after and only after resume() was called for its suspend point,
// however resume races with the suspension; never twice, never on two threads at once, never forgotten; the enclosing
// wait does not complete while a covered task is suspended; the suspending thread keeps executing other work.
#define VRT_IMPL
#include "vrt_tbb.h"
#include <oneapi/tbb.h>
#include <memory>
#include <deque>

using namespace vrt;

enum Mode { SYNC, FOREIGN_NOW, FOREIGN_DELAY, ARENA_TASK, AFTER_OTHER_TASK, NMODES };
static const char* mode_name[] = { "sync-in-callback", "foreign-immediately", "foreign-after-delay", "enqueued-task", "foreign-after-second-task-ran" };

struct Point {
    int mode = 0; unsigned delay_us = 0;
    std::atomic<bool> resume_called{false}, resume_returned{false}, running{false};
    std::atomic<int> continued{0}, callbacks{0};
    std::atomic<int> susp_thread{-1}, cont_thread{-1};
    std::atomic<bool> other_ran{false};          // AFTER_OTHER_TASK: the sibling task spawned before suspending has run
    tbb::task::suspend_point sp{};
};
struct Request { Point* p; };

struct Resumers {                                  // foreign (non-TBB) threads that call resume()
    std::mutex m; std::deque<Request> q; std::atomic<long> pending{0}; std::atomic<bool> stop{false};
    std::vector<std::thread> th;
    explicit Resumers(int n) { for (int i = 0; i < n; i++) th.emplace_back([this] { loop(); }); }
    void push(Point* p) { { std::lock_guard<std::mutex> l(m); q.push_back(Request{ p }); } pending.fetch_add(1, std::memory_order_release); }
    void loop() {
        while (!stop.load(std::memory_order_relaxed)) {
            if (pending.load(std::memory_order_acquire) == 0) { _mm_pause(); static thread_local int idle = 0; if (++idle > 2000) { idle = 0; sleep_us(50); } continue; }
            Request r{ nullptr };
            { std::lock_guard<std::mutex> l(m); if (!q.empty()) { r = q.front(); q.pop_front(); pending.fetch_sub(1); } }
            if (!r.p) continue;
            Point& p = *r.p;
            if (p.mode == FOREIGN_DELAY) sleep_us(p.delay_us);
            else if (p.mode == AFTER_OTHER_TASK) { while (!p.other_ran.load(std::memory_order_acquire)) { if (stop.load()) return; sleep_us(20); } }
            else spin_iters(p.delay_us);           // 0..few hundred iterations: lands inside the stack switch
            p.resume_called.store(true, std::memory_order_release);
            tbb::task::resume(p.sp);
            p.resume_returned.store(true, std::memory_order_release);
        }
    }
    ~Resumers() { stop = true; for (auto& t : th) t.join(); }
};

struct Scen {
    std::vector<std::unique_ptr<Point>> pts; std::mutex pm;
    std::atomic<int> fails{0}; std::string fail_first; std::mutex fm;
    std::atomic<long> completed{0};
    long ntasks = 0; int conc = 0; uint64_t seed = 0; bool isolated = false;
    void fail(const std::string& key, const std::string& what) { if (fails.fetch_add(1) == 0) { std::lock_guard<std::mutex> l(fm); fail_first = key + "|" + what; } }
    Point& add(int mode, unsigned delay) { std::lock_guard<std::mutex> l(pm); pts.emplace_back(new Point); pts.back()->mode = mode; pts.back()->delay_us = delay; return *pts.back(); }
    std::string describe() {
        std::lock_guard<std::mutex> l(pm);
        Json j; j.obj(); j.kv("seed", (unsigned long long)seed); j.kv("arena", conc); j.kv("inside_isolate", isolated); j.kv("tasks", (long long)ntasks); j.kv("tasks_completed", (long long)completed.load());
        j.key("points").arr();
        for (size_t i = 0; i < pts.size() && i < 40; i++) { Point& p = *pts[i]; j.arr(); j.val(mode_name[p.mode]); j.val(p.callbacks.load()); j.val((int)p.resume_called.load()); j.val((int)p.resume_returned.load()); j.val(p.continued.load()); j.val(p.susp_thread.load()); j.val(p.cont_thread.load()); j.end_arr(); }
        j.end_arr(); j.kv("columns", "mode,callback_runs,resume_called,resume_returned,continued,suspending_thread,continuing_thread"); j.end_obj(); return j.s;
    }
};

static Resumers* g_res; static tbb::task_arena* g_arena; static Scen* g_scen;

static void do_suspend(Scen& s, int mode, unsigned delay, tbb::task_group* tg) {
    Point& p = s.add(mode, delay);
    p.susp_thread.store(thread_ordinal(), std::memory_order_relaxed);
    if (mode == AFTER_OTHER_TASK) tg->run([&p] { spin_iters(200); p.other_ran.store(true, std::memory_order_release); });   // must be run by the suspending thread in a 1-slot arena
    tbb::task::suspend([&](tbb::task::suspend_point sp) {
        p.callbacks.fetch_add(1, std::memory_order_relaxed);
        p.sp = sp;
        switch (mode) {
        case SYNC: p.resume_called.store(true, std::memory_order_release); tbb::task::resume(sp); p.resume_returned.store(true, std::memory_order_release); break;
        case ARENA_TASK: g_arena->enqueue([&p, sp] { p.resume_called.store(true, std::memory_order_release); tbb::task::resume(sp); p.resume_returned.store(true, std::memory_order_release); }); break;
        default: g_res->push(&p); break;
        }
    });
    // ---- continuation
    if (!p.resume_called.load(std::memory_order_acquire)) s.fail("c20.continued-before-resume", std::string("code after suspend runs although resume() was not called yet (mode ") + mode_name[mode] + ")");
    if (p.continued.fetch_add(1) != 0) s.fail("c20.continued-twice", std::string("suspend point continued more than once (mode ") + mode_name[mode] + ")");
    if (p.running.exchange(true)) s.fail("c20.two-threads", "continuation running on two threads at once");
    p.cont_thread.store(thread_ordinal(), std::memory_order_relaxed);
    if (p.callbacks.load() != 1) s.fail("c20.callback-count", "suspend callback ran " + std::to_string(p.callbacks.load()) + " times");
    spin_iters(100 + (unsigned)trng().below(400));
    p.running.store(false);
}

// iso: the calling thread is (or may be) inside an isolated region: its waits do not take enqueued (FIFO) tasks, so a resume that is itself an
// enqueued task of this arena could wait for ever - a deadlock made by the harness; such points are resumed by a foreign thread instead
static void task_body(Scen& s, Rng r, tbb::task_group* tg, int depth, bool iso_ctx = false) {
    int k = 1 + (int)r.below(3);
    for (int i = 0; i < k; i++) {
        int mode = (int)r.below(NMODES);
        if (mode == AFTER_OTHER_TASK && (!tg || depth > 0)) mode = FOREIGN_NOW;
        if (mode == ARENA_TASK && (iso_ctx || s.isolated)) mode = FOREIGN_DELAY;
        unsigned delay = mode == FOREIGN_DELAY ? 50 + (unsigned)r.below(1500) : (unsigned)r.below(r.chance(1, 2) ? 40 : 600);
        int nest = (int)r.below(6);
        if (nest == 0 && depth < 2) {
            // suspension at a nested dispatch level: inside a nested parallel_for
            uint64_t sd = r.next();
            tbb::parallel_for(0, 2, [&, sd](int j) { Rng rr(mix(sd, j)); if (j == 0) do_suspend(s, mode == AFTER_OTHER_TASK ? FOREIGN_NOW : mode, delay, nullptr); else spin_iters((unsigned)rr.below(2000)); }, tbb::simple_partitioner());
        } else if (nest == 1 && depth < 2) {
            uint64_t sd = r.next(); bool iso = r.chance(1, 3);
            auto nested = [&] { tbb::task_group inner; inner.run([&, sd] { task_body(s, Rng(sd), &inner, depth + 1, iso_ctx || iso); }); if (iso) inner.run([&, sd] { task_body(s, Rng(sd + 1), &inner, depth + 1, true); }); inner.wait(); };
            if (iso) tbb::this_task_arena::isolate(nested); else nested();
        } else do_suspend(s, mode, delay, tg);
    }
}

// ---------------------------------------------------------------------------------------------- mode "outer": suspension at the outermost level
// An application thread E1 calls tbb::task::suspend directly in the functor it passed to task_arena::execute - not inside any task: the
// suspended stack is the thread's own. Meanwhile its OS thread serves the arena on a coroutine (and is kept busy there by an enqueued task in
// half of the scenarios). A second application thread E2 waits in the same arena (task_group::wait kept open by a deferred handle), so that
// E2 - or a worker, when the arena has worker slots - may be the one that takes the resume task and lands on E1's stack. The owner must be
// recalled: the code after suspend() continues exactly once, after resume(), and on E1's own OS thread (anything else leaves two OS threads
// on each other's stacks); both execute() calls return.
struct OuterScen {
    uint64_t seed = 0; int slots = 2, reserved = 2; bool blocker = false; unsigned resume_delay_us = 0, blocker_hold_us = 0;
    std::atomic<int> e1_tid{0}, cont_tid{0}, continued{0}, cb_runs{0}, e2_in{0}, blocker_started{0}, blocker_tid{0}, release_blocker{0}, blocker_done{0}, resume_called{0}, resume_returned{0}, e1_returned{0}, e2_returned{0};
    std::string describe() const {
        Json j; j.obj(); j.kv("class", "outer"); j.kv("scn_seed", (unsigned long long)seed); j.kv("arena", std::to_string(slots) + "," + std::to_string(reserved)); j.kv("owner_kept_busy_by_an_enqueued_task", blocker);
        j.kv("resume_delay_us", (long long)resume_delay_us); j.kv("suspending_thread", e1_tid.load()); j.kv("continuing_thread", cont_tid.load()); j.kv("callback_runs", cb_runs.load()); j.kv("continued", continued.load());
        j.kv("resume_called", resume_called.load()); j.kv("resume_returned", resume_returned.load()); j.kv("thread_that_ran_the_enqueued_task", blocker_tid.load()); j.kv("E1_execute_returned", e1_returned.load()); j.kv("E2_execute_returned", e2_returned.load());
        j.end_obj(); return j.s;
    }
};
static OuterScen* g_outer = nullptr;
static int run_outer(Result& R, long cases, bool do_perturb) {
    std::vector<int> ids = { 80, 81, 82, 30, 31, 58, 50, 52, 54, 40 };
    Rng top(mix(R.seed, 0x0C20));
    tbb::global_control gc(tbb::global_control::max_allowed_parallelism, 16);
    watchdog_start(WatchdogCfg{}, [&](const HangInfo& hi) {
        OuterScen* s = g_outer;
        std::string d = "no progress for " + std::to_string(hi.stalled_for) + "s; threads: " + hi.threads.substr(0, 700);
        if (!hi.quiescent && !hi.spin_stall) { R.inconclusive++; fprintf(stderr, "[c20] inconclusive stall: %s\n", d.c_str()); R.finish_and_exit(4); }
        std::string what = "execute-not-returned";
        if (s && s->resume_returned.load() && s->continued.load() == 0) what = "resumed-not-continued";
        R.violation(std::string("c20.outer.hang.") + (hi.quiescent ? "quiescent." : "spin-stall.") + what, d + "\n" + rings_dump(8).substr(0, 1200), s ? s->describe() : "{}");
        R.finish_and_exit(3);
    });
    for (long k = 0; k < cases; k++) {
        OuterScen s; s.seed = top.next(); Rng r(s.seed); g_outer = &s;
        unsigned shape = (unsigned)r.below(4);
        if (shape == 0) { s.slots = 2; s.reserved = 2; } else if (shape == 1) { s.slots = 3; s.reserved = 3; } else if (shape == 2) { s.slots = 3; s.reserved = 2; } else { s.slots = 4; s.reserved = 2; }
        s.blocker = r.chance(1, 2); s.resume_delay_us = r.chance(1, 2) ? 0 : (unsigned)r.below(400); s.blocker_hold_us = (unsigned)r.below(600);
        if (do_perturb) { if (r.chance(1, 4)) perturb().clear(); else perturb_random(r, ids); }
        tbb::task_arena A(s.slots, s.reserved); A.initialize();
        tbb::task::suspend_point sp{}; tbb::task_handle* hp = nullptr; std::atomic<int> hp_ready{0};
        std::thread E2([&] {
            A.execute([&] {
                tbb::task_group tg; tbb::task_handle h = tg.defer([] {}); hp = &h; hp_ready.store(1, std::memory_order_release);
                s.e2_in.store(1, std::memory_order_release);
                tg.wait();                     // serves the arena (also resume tasks) until main drops the handle
            });
            s.e2_returned.store(1, std::memory_order_release);
        });
        while (!s.e2_in.load(std::memory_order_acquire)) sched_yield();
        std::thread E1([&] {
            A.execute([&] {
                s.e1_tid.store(gettid_(), std::memory_order_relaxed);
                tbb::task::suspend([&](tbb::task::suspend_point p) { sp = p; s.cb_runs.fetch_add(1, std::memory_order_release); });
                // the stack of this application thread: only this thread may be here
                s.cont_tid.store(gettid_(), std::memory_order_relaxed);
                if (!s.resume_called.load(std::memory_order_acquire)) { R.violation("c20.outer.continued-before-resume", "the code after suspend() at the outermost level ran before resume() was called", s.describe()); R.finish_and_exit(1); }
                s.continued.fetch_add(1, std::memory_order_release);
            });
            s.e1_returned.store(1, std::memory_order_release);
        });
        while (!s.cb_runs.load(std::memory_order_acquire)) sched_yield();
        if (s.blocker) {
            // keeps E1's OS thread (now on a coroutine at its outermost level, the only loop here that takes enqueued work) busy
            A.enqueue([&] { s.blocker_tid.store(gettid_(), std::memory_order_relaxed); s.blocker_started.store(1, std::memory_order_release); while (!s.release_blocker.load(std::memory_order_acquire)) { spin_iters(50); } s.blocker_done.store(1, std::memory_order_release); });
            while (!s.blocker_started.load(std::memory_order_acquire)) sched_yield();
        }
        if (s.resume_delay_us) sleep_us(s.resume_delay_us);
        s.resume_called.store(1, std::memory_order_release);
        tbb::task::resume(sp);
        s.resume_returned.store(1, std::memory_order_release);
        if (s.blocker) { if (s.blocker_hold_us) sleep_us(s.blocker_hold_us); s.release_blocker.store(1, std::memory_order_release); }
        // E1's continuation: exactly once, on E1's own OS thread
        while (!s.continued.load(std::memory_order_acquire)) sched_yield();
        if (s.cont_tid.load() != s.e1_tid.load()) {
            R.violation("c20.outer.continued-on-foreign-thread", "code suspended at the outermost level of application thread " + std::to_string(s.e1_tid.load()) + " (directly in its task_arena::execute functor) was continued on OS thread " + std::to_string(s.cont_tid.load()) + ": the owner was not recalled to its stack", s.describe());
            R.finish_and_exit(1);            // two OS threads sit on each other's stacks now: nothing after this point means anything
        }
        while (!s.e1_returned.load(std::memory_order_acquire)) sched_yield();
        while (!hp_ready.load(std::memory_order_acquire)) sched_yield();
        *hp = tbb::task_handle();           // closes E2's wait
        E1.join(); E2.join();
        if (s.blocker) while (!s.blocker_done.load(std::memory_order_acquire)) sched_yield();      // the enqueued task refers to this scenario object
        if (s.continued.load() != 1 || s.cb_runs.load() != 1) { R.violation("c20.outer.continued-count", "callback ran " + std::to_string(s.cb_runs.load()) + " times, the suspended code continued " + std::to_string(s.continued.load()) + " times", s.describe()); }
        R.scenarios++; R.nontrivial++;
        R.stat("outer_suspensions"); if (s.blocker) { R.stat("outer_owner_busy_with_an_enqueued_task_when_resumed"); if (s.blocker_tid.load() == s.e1_tid.load()) R.stat("outer_enqueued_task_ran_on_the_suspended_threads_coroutine"); }
        R.signature(mix(mix(0x07, (uint64_t)shape * 2 + s.blocker), (uint64_t)(s.resume_delay_us / 100)));
        g_outer = nullptr; perturb().clear();
        progress();
    }
    watchdog_stop();
    R.write();
    return 0;
}

int main(int argc, char** argv) {
    Args a = standard_init(argc, argv, "c20");
    if (result().mode == "outer") return run_outer(result(), a.num("cases", 2000), a.num("perturb", 1) != 0);
    Result& R = result();
    long cases = a.num("cases", 2000);
    bool do_perturb = a.num("perturb", 1) != 0;
    std::vector<int> ids = { 80, 81, 82, 30, 31, 58, 50, 52, 54, 40 };
    Rng top(mix(R.seed, 0xC20));
    tbb::global_control gc(tbb::global_control::max_allowed_parallelism, 16);
    Resumers res(2); g_res = &res;
    watchdog_start(WatchdogCfg{}, [&](const HangInfo& hi) {
        Scen* s = g_scen;
        std::string d = "no progress for " + std::to_string(hi.stalled_for) + "s; threads: " + hi.threads.substr(0, 700);
        if (!hi.quiescent && !hi.spin_stall) { R.inconclusive++; fprintf(stderr, "[c20] inconclusive stall: %s\n", d.c_str()); R.finish_and_exit(4); }
        std::string what = "wait-not-returned";
        if (s) {
            std::lock_guard<std::mutex> l(s->pm);
            for (auto& p : s->pts) {
                if (p->resume_returned.load() && p->continued.load() == 0) { what = "resumed-not-continued"; break; }
                if (p->mode == AFTER_OTHER_TASK && !p->other_ran.load() && p->callbacks.load()) what = "other-work-not-run-while-suspended";
            }
        }
        R.violation(std::string("c20.hang.") + (hi.quiescent ? "quiescent." : "spin-stall.") + what, d + "\n" + rings_dump(8).substr(0, 1200), s ? s->describe() : "{}");
        R.finish_and_exit(3);
    });
    long done = 0;
    while (done < cases) {
        int conc = (int)top.pick(std::vector<int>{ 1, 1, 2, 2, 3, 4, 8, 16 });
        tbb::task_arena A(conc, 1); A.initialize(); g_arena = &A;
        long batch = std::min<long>(cases - done, 100 + (long)top.below(200));
        for (long k = 0; k < batch; k++) {
            Scen s; s.seed = top.next(); s.conc = conc; Rng r(s.seed);
            s.ntasks = 1 + (long)r.below(6);
            g_scen = &s;
            if (do_perturb) perturb_random(r, ids);
            bool via_algo = r.chance(1, 5);
            // a third of the scenarios submit and wait inside this_task_arena::isolate: every dispatch loop of the waiting thread is an
            // isolated one then, and a resume request still has to be picked up (in a one-slot arena there is nobody else to do it)
            bool isolated = r.chance(1, 3); s.isolated = isolated;
            if (isolated) R.stat("scenarios_waiting_inside_isolate"); if (isolated && conc == 1) R.stat("scenarios_waiting_inside_isolate_in_a_one_slot_arena");
            A.execute([&] {
              auto body = [&] {
                if (via_algo) {
                    uint64_t sd = r.next();
                    tbb::parallel_for(0, (int)s.ntasks, [&, sd](int i) { task_body(s, Rng(mix(sd, i)), nullptr, 1); s.completed++; }, tbb::simple_partitioner());
                } else {
                    tbb::task_group tg;
                    for (long t = 0; t < s.ntasks; t++) { uint64_t sd = r.next(); tg.run([&, sd] { task_body(s, Rng(sd), &tg, 0); s.completed++; }); }
                    tg.wait();
                }
                if (s.completed.load() != s.ntasks) s.fail("c20.wait-returned-early", "the enclosing wait returned with " + std::to_string(s.completed.load()) + " of " + std::to_string(s.ntasks) + " tasks finished");
              };
              if (isolated) tbb::this_task_arena::isolate(body); else body();
            });
            // every resume() call must have returned before the points go away
            for (auto& p : s.pts) { while (!p->resume_returned.load(std::memory_order_acquire)) sched_yield(); if (p->continued.load() != 1) s.fail("c20.continued-count", "suspend point continued " + std::to_string(p->continued.load()) + " times"); }
            uint64_t h = mix(conc, s.pts.size()); bool moved = false;
            for (auto& p : s.pts) { bool mv = p->susp_thread.load() != p->cont_thread.load(); moved |= mv; h = mix(h, (uint64_t)p->mode * 2 + mv); R.stat(std::string("points.") + mode_name[p->mode]); if (mv) R.stat("continued_on_another_thread"); }
            R.scenarios++; R.stat("suspend_points", (long long)s.pts.size());
            if (s.pts.size() >= 2 || moved) { R.nontrivial++; R.signature(h); }
            if (s.fails.load()) { std::string key = s.fail_first.substr(0, s.fail_first.find('|')), det = s.fail_first.substr(s.fail_first.find('|') + 1); R.violation(key, det + " (" + std::to_string(s.fails.load()) + " failed checks)", s.describe()); }
            else if (R.want_sample() && s.pts.size() >= 3) R.sample(s.describe());
            g_scen = nullptr;
            progress();
        }
        done += batch;
        perturb().clear();
        g_arena = nullptr;
    }
    watchdog_stop();
    uint64_t oh[8]; hook_hist(82, oh);
    R.stat("resume_found_suspended(normal)", (long long)oh[0]); R.stat("resume_arrived_before_suspension_finished(early)", (long long)oh[1]);
    R.write();
    return 0;
}
