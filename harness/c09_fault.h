// C09 class B: concurrent_bounded_queue with a finite capacity and an element constructor that throws at call index k.
// Known defect 4.3 lives here (an invalid slot counts toward capacity; skipping it notifies nobody), so this class runs in a
// process of its own: a wedge is turned into a verdict by the watchdog + the predicate "a push is blocked although no value
// is inside". Everything else (conservation, order, capacity, exception reaches exactly the caller) is judged strictly.
#pragma once
#include "c09_lin.h"

namespace c09 {

template <class Q> void fault_B_scenario(Engine& E, Q& q, const Plan& p, Rng& r, Outcome& out, bool probe_first, std::string& known_detail) {
    Result& R = result();
    HangCtx& hc = hang_ctx();
    Clock& clk = E.clk; clk.wall = p.wall_clock || E.light; clk.c.store(1);
    const int n = p.nthreads, me = n;
    for (int t = 0; t <= n; t++) E.logs[t].reset(t);
    for (int i = 0; i < p.preadvance; i++) { do_op(q, K_PUSH, 900000 + i); do_op(q, K_TRY_POP, 0); }
    q.set_capacity(p.cap);
    auto one = [&](int kind, long v) { Log& lg = E.logs[me]; size_t i = lg.begin(clk, kind, v); long res = do_op(q, kind, v); lg.end(clk, i, res); return res; };
    auto quiescent_probe = [&] {
        // Deterministic, single-threaded: `cap` pushes whose constructor throws, then try_push on the (empty) queue.
        hc.phase.store(1);
        ctor_inj().disarm(); for (long i = 0; i < p.cap && i < 3; i++) ctor_inj().arm((int)i, i);
        for (long i = 0; i < p.cap; i++) { long res = one(i & 1 ? K_EMPLACE : K_PUSH, 500 + i); if (res != RS_THREW) out.fail("exception-not-delivered", "a push whose element constructor threw ended with code " + std::to_string(res)); }
        ctor_inj().disarm();
        long sz = (long)q.size();
        if (sz != 0) out.fail("size-after-failed-push", "size() == " + std::to_string(sz) + " after pushes that all threw on an empty queue");
        R.stat("B_try_push_probes_on_empty_queue");
        long res = one(K_TRY_PUSH, 600);
        if (res == RS_FULL) { R.stat("B_try_push_false_on_empty_queue"); known_detail = ("capacity " + std::to_string(p.cap) + ": after " + std::to_string(p.cap) + " pushes whose constructor threw, size()==0 and try_push still returns false"); }
        else if (res == RS_OK) hc.pushed.fetch_add(1);
        for (;;) { long v = one(K_TRY_POP, 0); if (v == RS_EMPTY) break; if (v >= 0) hc.popped.fetch_add(1); }      // also consumes the invalid slots
    };
    if (probe_first) quiescent_probe();
    // concurrent part: producers with blocking push / emplace / try_push, consumers spinning on try_pop
    hc.phase.store(2);
    ctor_inj().disarm(); ctor_inj().arm(0, p.arm_ctor[0]); ctor_inj().arm(1, p.arm_ctor[1]);
    int nprod = 0; for (int t = 0; t < n; t++) if (!p.ops[t].empty()) nprod++;
    std::atomic<int> producers_left{nprod};
    E.pool.start(n, [&](int t) {
        Log& lg = E.logs[t];
        if (!p.ops[t].empty()) {
            for (const PlanOp& o : p.ops[t]) {
                if (o.delay) spin_iters(o.delay);
                size_t i = lg.begin(clk, o.kind, o.val); long res;
                if (o.kind == K_TRY_PUSH) res = do_op(q, o.kind, o.val);
                else { BlockMark b(hc.blocked_push); res = do_op(q, o.kind, o.val); }
                lg.end(clk, i, res);
                if (res == RS_OK) hc.pushed.fetch_add(1, std::memory_order_relaxed);
                progress();
            }
            producers_left.fetch_sub(1, std::memory_order_release);
        } else {
            int sp = 0;
            for (;;) {
                bool last = producers_left.load(std::memory_order_acquire) == 0;
                size_t i = lg.begin(clk, K_TRY_POP, 0); long res = do_op(q, K_TRY_POP, 0); lg.end(clk, i, res);
                if (res >= 0) { hc.popped.fetch_add(1, std::memory_order_relaxed); progress(); sp = 0; }
                else { lg.ops.pop_back(); if (last) break; relax(sp); }       // "empty" answers are not logged (unbounded number); no progress
            }
        }
    });
    E.pool.wait();
    ctor_inj().disarm();
    hc.phase.store(3);
    for (;;) { long v = one(K_TRY_POP, 0); if (v == RS_EMPTY) break; if (v >= 0) { out.drained.push_back(v); hc.popped.fetch_add(1); } else { out.fail("drain-exception", "try_pop at quiescence ended with code " + std::to_string(v)); break; } }
    if (!probe_first) quiescent_probe();
    for (int t = 0; t <= n; t++) out.ops.insert(out.ops.end(), E.logs[t].ops.begin(), E.logs[t].ops.end());
    E.out_initial.clear();
}

inline void run_fault_B(Engine& E, Rng& r, long case_index) {
    Result& R = result();
    Plan p; p.cls = 'B'; p.seed = r.next(); p.bounded = true;
    p.cap = 1 + (long)r.below(3);
    p.size_class = (int)r.below(6);
    p.preadvance = r.chance(1, 2) ? near_page_boundary(r, p.size_class) : (int)r.below(5);
    if (p.size_class <= 1 && r.chance(2, 3)) p.preadvance = (int)r.below(10);
    p.wall_clock = r.chance(1, 4);
    int nprod = 1 + (int)r.below(2), ncons = 1 + (int)r.below(2);
    p.nthreads = nprod + ncons;
    int npush = 0;
    for (int t = 0; t < nprod; t++) {
        int cnt = 3 + (int)r.below(8);
        for (int i = 0; i < cnt; i++) { PlanOp o; o.val = t * 1000 + i; o.delay = r.chance(1, 4) ? (uint16_t)r.below(400) : 0; unsigned x = (unsigned)r.below(100); o.kind = x < 55 ? K_PUSH : x < 75 ? K_EMPLACE : K_TRY_PUSH; p.ops[t].push_back(o); npush++; }
    }
    p.arm_ctor[0] = case_index % (npush + 1);
    if (r.chance(1, 3)) p.arm_ctor[1] = (long)r.below((uint64_t)npush + 1);
    bool probe_first = r.chance(1, 2);
    hang_ctx().begin('B', p.cap, plan_json(p));
    Outcome out; std::string known_detail;
    perturb_random(r, hook_ids());
    by_size(p.size_class, [&](auto sz) { constexpr int SZ = decltype(sz)::value; BU<SZ> q; fault_B_scenario(E, q, p, r, out, probe_first, known_detail); });
    perturb().clear();
    R.scenarios++; R.stat("B_scenarios_completed");
    Aspect as;
    aspect_check(out.ops, E.out_initial, p.cap, out, as, /*strict_full=*/false);
    R.stat("B_pushes_that_threw", as.exceptions);
    for (auto& o : out.ops) if (o.res == RS_BADALLOC || o.res == RS_BADLAST || o.res == RS_ABORT) out.fail("unexpected-exception", std::string(kind_names[o.kind]) + " ended with exception code " + std::to_string(o.res));
    int ov = overlapping_pairs(out.ops);
    if (ov > 0) { R.nontrivial++; R.signature(mix(history_signature(out.ops), 'B')); }
    static bool known_reported = false;
    if (!known_detail.empty() && !known_reported) {      // signature of known finding 4.3; reported once per process, never masks anything else
        known_reported = true;
        R.violation(cls_key('B', "try_push-false-on-empty-queue"), known_detail, plan_json(p));
    }
    if (!out.fail_key.empty()) {
        Json j; j.obj(); j.key("plan").raw(plan_json(p)); j.kv("probe_first", probe_first); j.key("history[thread,op,arg,result,call,ret]").raw(history_json(out.ops, kind_names)); j.end_obj();
        R.violation(cls_key('B', out.fail_key), out.fail_detail, j.s);
    }
}

} // namespace c09
