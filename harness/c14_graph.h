// C14 harness, part 2: random topology generator, type-erased node builders, expectation propagation from the wiring semantics.
#pragma once
#include "c14_core.h"

enum { K_FQ = 0, K_FL, K_FR, K_Q, K_B, K_PQ, K_BC, K_LIM, K_MF, K_SEQ, K_OW, K_JOIN, K_SPLIT, K_IDX, K_ASYNC, K_CONT, K_FAN, K_IN, K_INR, K_LFAN, K_COUNT };
static const char* kind_name[] = { "fn_queueing", "fn_lightweight", "queue+fn_rejecting", "queue", "buffer", "priority_queue", "broadcast", "queue+limiter+fn+decrement",
                                   "multifunction", "sequencer", "overwrite", "broadcast+join+adapter", "fn+split", "indexer+adapter", "async", "fn+continue", "buffer+rejecting_workers",
                                   "input", "input+fn_rejecting", "sender+{rejecting victim,audit}" };
enum { JP_QUEUEING = 0, JP_RESERVING = 1, JP_KEY = 2 };
enum { FRONT_QUEUE = 0, FRONT_BUFFER = 1, FRONT_PQ = 2 };

static inline size_t conc_of(int limit) { return limit ? (size_t)limit : (size_t)fl::unlimited; }
template <class T, class... A> static T* mk(NodeRec& n, A&&... a) { auto p = std::make_shared<T>(std::forward<A>(a)...); n.parts.push_back(p); return p.get(); }

static Probe* add_probe(Scen& s, NodeRec& n, const std::string& what, int limit, Rng& r, bool live = true) {
    n.probes.emplace_back(new Probe); Probe* p = n.probes.back().get();
    p->name = "node " + std::to_string(n.idx) + " (" + kind_name[n.kind] + ") " + what; p->limit = limit; p->counts_live = live;
    p->cnt.reset(new std::atomic<uint32_t>[s.M]); for (int i = 0; i < s.M; i++) p->cnt[i].store(0, RLX);
    p->exp.assign(s.M, 0);
    if (limit == 1 && live) { p->cap = 64; p->order.reset(new int[p->cap]); }
    unsigned d = (unsigned)r.below(100);
    p->dpat = d < 50 ? 0 : d < 68 ? 1 : d < 82 ? 2 : d < 92 ? 3 : 4;
    p->diters = p->dpat == 1 ? 300 + (unsigned)r.below(3000) : 400 + (unsigned)r.below(limit ? 5000 : 1500);
    p->dseed = r.next();
    return p;
}

static fl::buffer_node<Msg>* make_front(NodeRec& n, fl::graph& g, int front) {
    switch (front) {
    case FRONT_BUFFER: return mk<fl::buffer_node<Msg>>(n, g);
    case FRONT_PQ: return mk<fl::priority_queue_node<Msg, MsgLess>>(n, g);
    default: return mk<fl::queue_node<Msg>>(n, g);
    }
}
static const char* front_name(int f) { return f == FRONT_BUFFER ? "buffer" : f == FRONT_PQ ? "priority_queue" : "queue"; }

// ---------------------------------------------------------------------------------------------- builders
template <bool NE> static void build_node(Scen& s, NodeRec& n, Rng& r) {
    fl::graph& g = *s.g;
    std::string lim = n.limit ? std::to_string(n.limit) : "unlimited";
    switch (n.kind) {
    case K_FQ: {
        Probe* p = add_probe(s, n, "body", n.limit, r);
        auto* f = mk<fl::function_node<Msg, Msg, fl::queueing>>(n, g, conc_of(n.limit), FnBody<NE>{ &s, p });
        n.in[0] = f; n.out[0] = f; n.desc = "function_node<queueing>(" + lim + ")";
    } break;
    case K_FL: {
        Probe* p = add_probe(s, n, "body", n.limit, r);
        if (n.variant == 0) { auto* f = mk<fl::function_node<Msg, Msg, fl::lightweight>>(n, g, conc_of(n.limit), FnBody<NE>{ &s, p }); n.in[0] = f; n.out[0] = f; n.desc = "function_node<lightweight>(" + lim + ")"; }
        else { auto* f = mk<fl::function_node<Msg, Msg, fl::queueing_lightweight>>(n, g, conc_of(n.limit), FnBody<NE>{ &s, p }); n.in[0] = f; n.out[0] = f; n.desc = "function_node<queueing_lightweight>(" + lim + ")"; }
    } break;
    case K_FR: {
        Probe* p = add_probe(s, n, "body", n.limit, r);
        auto* q = make_front(n, g, n.front);
        if (n.variant == 0) { auto* f = mk<fl::function_node<Msg, Msg, fl::rejecting>>(n, g, conc_of(n.limit), FnBody<NE>{ &s, p }); fl::make_edge(*q, *f); n.out[0] = f; }
        else { auto* f = mk<fl::function_node<Msg, Msg, fl::rejecting_lightweight>>(n, g, conc_of(n.limit), FnBody<NE>{ &s, p }); fl::make_edge(*q, *f); n.out[0] = f; }
        n.in[0] = q; n.desc = std::string(front_name(n.front)) + " -> function_node<rejecting" + (n.variant ? "_lightweight" : "") + ">(" + lim + ")";
    } break;
    case K_LFAN: {
        // A non-buffering sender with two successors: the first one registered rejects (busy serial rejecting node, with or without a node
        // priority, or a limiter that is never decremented) and may lose what it rejects; the second one accepts everything and must
        // still be offered every message - also the one whose offer to the first successor ended with the edge being reversed.
        bool bc = n.variant & 1; int vk = (n.variant >> 1) % 3;
        Probe* pv = add_probe(s, n, "victim body (loses what it rejects)", 1, r); pv->lossy = true; if (pv->dpat == 0) pv->dpat = 1;
        Probe* pa = add_probe(s, n, "audit body (second successor)", n.limit, r);
        fl::sender<Msg>* snd; fl::receiver<Msg>* rcv;
        if (bc) { auto* b = mk<fl::broadcast_node<Msg>>(n, g); snd = b; rcv = b; }
        else { Probe* ph = add_probe(s, n, "head body", 0, r); auto* f = mk<fl::function_node<Msg, Msg, fl::queueing>>(n, g, fl::unlimited, FnBody<NE>{ &s, ph }); snd = f; rcv = f; }
        if (vk == 0) { auto* v = mk<fl::function_node<Msg, Msg, fl::rejecting>>(n, g, fl::serial, FnBody<NE>{ &s, pv }); fl::make_edge(*snd, *v); }
        else if (vk == 1) { auto* v = mk<fl::function_node<Msg, Msg, fl::rejecting>>(n, g, fl::serial, FnBody<NE>{ &s, pv }, fl::rejecting(), fl::node_priority_t(1)); fl::make_edge(*snd, *v); }
        else { auto* l = mk<fl::limiter_node<Msg>>(n, g, 1); auto* v = mk<fl::function_node<Msg, Msg, fl::queueing>>(n, g, fl::serial, FnBody<NE>{ &s, pv }); fl::make_edge(*snd, *l); fl::make_edge(*l, *v); }
        auto* a = mk<fl::function_node<Msg, Msg, fl::queueing>>(n, g, conc_of(n.limit), FnBody<NE>{ &s, pa });
        fl::make_edge(*snd, *a);
        n.in[0] = rcv; n.out[0] = a;
        n.desc = std::string(bc ? "broadcast_node" : "function_node<queueing>(unlimited)") + " -> {" + (vk == 0 ? "function_node<rejecting>(serial)" : vk == 1 ? "function_node<rejecting>(serial, priority 1)" : "limiter_node(1, never decremented) -> function_node") + " [may lose], function_node<queueing>(" + lim + ") [must get everything]}";
    } break;
    case K_Q: case K_B: case K_PQ: case K_SEQ: {
        fl::buffer_node<Msg>* b;
        if (n.kind == K_Q) b = mk<fl::queue_node<Msg>>(n, g); else if (n.kind == K_B) b = mk<fl::buffer_node<Msg>>(n, g);
        else if (n.kind == K_PQ) b = mk<fl::priority_queue_node<Msg, MsgLess>>(n, g); else b = mk<fl::sequencer_node<Msg>>(n, g, SeqOf{});
        n.in[0] = b; n.out[0] = b; n.desc = std::string(kind_name[n.kind]) + "_node";
        if (n.succ[0].empty()) { n.drain = b; add_probe(s, n, "content after the last wait_for_all", 0, r, false); }
    } break;
    case K_BC: { auto* b = mk<fl::broadcast_node<Msg>>(n, g); n.in[0] = b; n.out[0] = b; n.desc = "broadcast_node"; } break;
    case K_OW: { auto* b = mk<fl::overwrite_node<Msg>>(n, g); n.in[0] = b; n.out[0] = b; n.desc = "overwrite_node"; } break;
    case K_LIM: {
        Probe* pw = add_probe(s, n, "worker body", n.limit, r);
        Probe* pd = add_probe(s, n, "decrement adapter body", 0, r);
        auto* q = make_front(n, g, n.front);
        auto* l = mk<fl::limiter_node<Msg>>(n, g, (size_t)n.th);
        fl::make_edge(*q, *l);
        fl::sender<Msg>* wout;
        if (n.variant == 0) { auto* w = mk<fl::function_node<Msg, Msg, fl::queueing>>(n, g, conc_of(n.limit), FnBody<NE>{ &s, pw }); fl::make_edge(*l, *w); wout = w; }
        else { auto* w = mk<fl::function_node<Msg, Msg, fl::rejecting>>(n, g, conc_of(n.limit), FnBody<NE>{ &s, pw }); fl::make_edge(*l, *w); wout = w; }
        fl::receiver<Msg>* din;
        if (n.policy == 0) { auto* d = mk<fl::function_node<Msg, fl::continue_msg, fl::queueing>>(n, g, fl::unlimited, ToContBody<NE>{ &s, pd }); fl::make_edge(*d, l->decrementer()); din = d; }
        else { auto* d = mk<fl::function_node<Msg, fl::continue_msg, fl::lightweight>>(n, g, fl::unlimited, ToContBody<NE>{ &s, pd }); fl::make_edge(*d, l->decrementer()); din = d; }
        auto* o = mk<fl::broadcast_node<Msg>>(n, g);
        fl::make_edge(*wout, *o); fl::make_edge(*wout, *din);
        n.in[0] = q; n.out[0] = o;
        n.desc = std::string(front_name(n.front)) + " -> limiter_node(" + std::to_string(n.th) + ") -> function_node<" + (n.variant ? "rejecting" : "queueing") + ">(" + lim + ") -> {broadcast_node, function_node<" + (n.policy ? "lightweight" : "queueing") + "> -> decrementer}";
    } break;
    case K_MF: {
        Probe* p = add_probe(s, n, "body", n.limit, r);
        MfBody<NE> body{ &s, p, !n.succ[0].empty(), !n.succ[1].empty() };
        if (n.variant == 0) { auto* f = mk<fl::multifunction_node<Msg, Pair, fl::queueing>>(n, g, conc_of(n.limit), body); n.in[0] = f; n.out[0] = &fl::output_port<0>(*f); n.out[1] = &fl::output_port<1>(*f); n.desc = "multifunction_node<queueing>(" + lim + ")"; }
        else if (n.variant == 1) { auto* f = mk<fl::multifunction_node<Msg, Pair, fl::lightweight>>(n, g, conc_of(n.limit), body); n.in[0] = f; n.out[0] = &fl::output_port<0>(*f); n.out[1] = &fl::output_port<1>(*f); n.desc = "multifunction_node<lightweight>(" + lim + ")"; }
        else { auto* q = make_front(n, g, n.front); auto* f = mk<fl::multifunction_node<Msg, Pair, fl::rejecting>>(n, g, conc_of(n.limit), body); fl::make_edge(*q, *f); n.in[0] = q; n.out[0] = &fl::output_port<0>(*f); n.out[1] = &fl::output_port<1>(*f); n.desc = std::string(front_name(n.front)) + " -> multifunction_node<rejecting>(" + lim + ")"; }
        n.desc += " routing id%3: 0 both ports, 1 port 0, 2 port 1";
    } break;
    case K_SPLIT: {
        Probe* p = add_probe(s, n, "duplicating body", n.limit, r);
        auto* f = mk<fl::function_node<Msg, Pair, fl::queueing>>(n, g, conc_of(n.limit), DupBody<NE>{ &s, p });
        auto* sp = mk<fl::split_node<Pair>>(n, g);
        fl::make_edge(*f, *sp);
        n.in[0] = f; n.out[0] = &fl::output_port<0>(*sp); n.out[1] = &fl::output_port<1>(*sp); n.desc = "function_node<Msg,(Msg,Msg)>(" + lim + ") -> split_node";
    } break;
    case K_IDX: {
        Probe* p0 = add_probe(s, n, "adapter body, tag 0", n.limit, r);
        Probe* p1 = add_probe(s, n, "adapter body, tag 1", n.limit, r);
        p1->dpat = p0->dpat;                                       // the two probes monitor one body (each stream is held to the limit on its own: weaker, still sound)
        auto* ix = mk<idx_node_t>(n, g);
        auto* f = mk<fl::function_node<idx_node_t::output_type, Msg, fl::queueing>>(n, g, conc_of(n.limit), TagBody<NE>{ &s, p0, p1 });
        fl::make_edge(*ix, *f);
        n.in[0] = &fl::input_port<0>(*ix); n.in[1] = &fl::input_port<1>(*ix); n.out[0] = f; n.desc = "indexer_node<Msg,Msg> -> function_node<tagged_msg,Msg>(" + lim + ")";
    } break;
    case K_JOIN: {
        Probe* pa = add_probe(s, n, "adapter body, first tuple element", n.limit, r);
        Probe* pb = add_probe(s, n, "adapter body, second tuple element", 0, r, false);
        auto* bc = mk<fl::broadcast_node<Msg>>(n, g);
        fl::sender<Msg>* arm[2] = { bc, bc };
        std::string ad[2];
        for (int a = 0; a < 2; a++) {
            int av = (n.variant >> (a * 4)) & 15;        // 0 direct, 1 queue, 2 buffer, 3 priority_queue, 4 function body
            if (n.policy == JP_RESERVING && (av == 0 || av == 4)) av = 1 + a;
            if (av >= 1 && av <= 3) { auto* q = make_front(n, g, av - 1); fl::make_edge(*bc, *q); arm[a] = q; ad[a] = front_name(av - 1); }
            else if (av == 4) { Probe* pf = add_probe(s, n, a ? "arm 1 body" : "arm 0 body", 0, r); auto* f = mk<fl::function_node<Msg, Msg, fl::queueing>>(n, g, fl::unlimited, FnBody<NE>{ &s, pf }); fl::make_edge(*bc, *f); arm[a] = f; ad[a] = "function_node"; }
            else ad[a] = "direct";
        }
        fl::sender<Pair>* jout;
        if (n.policy == JP_QUEUEING) { auto* j = mk<fl::join_node<Pair, fl::queueing>>(n, g); fl::make_edge(*arm[0], fl::input_port<0>(*j)); fl::make_edge(*arm[1], fl::input_port<1>(*j)); jout = j; }
        else if (n.policy == JP_RESERVING) { auto* j = mk<fl::join_node<Pair, fl::reserving>>(n, g); fl::make_edge(*arm[0], fl::input_port<0>(*j)); fl::make_edge(*arm[1], fl::input_port<1>(*j)); jout = j; }
        else { auto* j = mk<fl::join_node<Pair, fl::key_matching<int>>>(n, g, KeyOf{}, KeyOf{}); fl::make_edge(*arm[0], fl::input_port<0>(*j)); fl::make_edge(*arm[1], fl::input_port<1>(*j)); jout = j; }
        PairBody<NE> body{ &s, pa, pb, n.policy == JP_KEY };
        if (n.front == 0) { auto* f = mk<fl::function_node<Pair, Msg, fl::queueing>>(n, g, conc_of(n.limit), body); fl::make_edge(*jout, *f); n.out[0] = f; }
        else { auto* f = mk<fl::function_node<Pair, Msg, fl::rejecting>>(n, g, conc_of(n.limit), body); fl::make_edge(*jout, *f); n.out[0] = f; }
        n.in[0] = bc;
        n.desc = "broadcast_node -> {" + ad[0] + ", " + ad[1] + "} -> join_node<" + (n.policy == JP_QUEUEING ? "queueing" : n.policy == JP_RESERVING ? "reserving" : "key_matching") + "> -> function_node<(Msg,Msg),Msg," + (n.front ? "rejecting" : "queueing") + ">(" + lim + ")";
    } break;
    case K_ASYNC: {
        Probe* p = add_probe(s, n, "submitting body", n.limit, r);
        if (n.variant == 0) { auto* a = mk<async_t>(n, g, conc_of(n.limit), AsyncBody<NE>{ &s, p }); n.in[0] = a; n.out[0] = &fl::output_port<0>(*a); }
        else { auto* a = mk<fl::async_node<Msg, Msg, fl::queueing>>(n, g, conc_of(n.limit), AsyncBody<NE>{ &s, p }); n.in[0] = a; n.out[0] = &fl::output_port<0>(*a); }
        n.desc = std::string("async_node<") + (n.variant ? "queueing" : "queueing_lightweight") + ">(" + lim + "), completed by foreign threads";
    } break;
    case K_CONT: {
        auto* bc = mk<fl::broadcast_node<Msg>>(n, g);
        fl::sender<fl::continue_msg>* ad[2]; int na = 1 + n.variant;
        for (int a = 0; a < na; a++) { Probe* pa = add_probe(s, n, a ? "adapter 1 body" : "adapter 0 body", 0, r); auto* f = mk<fl::function_node<Msg, fl::continue_msg, fl::queueing>>(n, g, fl::unlimited, ToContBody<NE>{ &s, pa }); fl::make_edge(*bc, *f); ad[a] = f; }
        Probe* pc = add_probe(s, n, "continue_node body", 0, r);
        if (n.policy == 0) { auto* c = mk<fl::continue_node<Msg>>(n, g, ContBody{ &s, pc, &n }); for (int a = 0; a < na; a++) fl::make_edge(*ad[a], *c); n.out[0] = c; }
        else { auto* c = mk<fl::continue_node<Msg, fl::lightweight>>(n, g, ContBody{ &s, pc, &n }); for (int a = 0; a < na; a++) fl::make_edge(*ad[a], *c); n.out[0] = c; }
        n.in[0] = bc; n.desc = "broadcast_node -> " + std::to_string(na) + " x function_node<Msg,continue_msg> -> continue_node<Msg" + (n.policy ? ",lightweight" : "") + "> (emits message k mod M on its k-th run)";
    } break;
    case K_FAN: {
        auto* q = make_front(n, g, n.front);
        auto* o = mk<fl::broadcast_node<Msg>>(n, g);
        for (int w = 0; w < n.k; w++) {
            Probe* p = add_probe(s, n, "worker " + std::to_string(w) + " body", n.limit, r); p->group = 0;
            auto* f = mk<fl::function_node<Msg, Msg, fl::rejecting>>(n, g, conc_of(n.limit), FnBody<NE>{ &s, p });
            fl::make_edge(*q, *f); fl::make_edge(*f, *o);
        }
        n.in[0] = q; n.out[0] = o; n.desc = std::string(front_name(n.front)) + " -> " + std::to_string(n.k) + " x function_node<rejecting>(" + lim + ") -> broadcast_node";
    } break;
    case K_IN: case K_INR: {
        Probe* p = add_probe(s, n, "input body", 1, r);
        auto* in = mk<fl::input_node<Msg>>(n, g, InputBody{ &s, p, &n });
        n.input = in; n.out[0] = in; n.desc = "input_node";
        if (n.kind == K_INR) {
            Probe* pf = add_probe(s, n, "body", n.limit, r);
            auto* f = mk<fl::function_node<Msg, Msg, fl::rejecting>>(n, g, conc_of(n.limit), FnBody<NE>{ &s, pf });
            fl::make_edge(*in, *f); n.out[0] = f; n.desc = "input_node -> function_node<rejecting>(" + lim + ")";
        }
    } break;
    }
}

// ---------------------------------------------------------------------------------------------- expectations from the wiring
typedef std::vector<uint32_t> EV;
static void add_to(EV& a, const EV& b) { for (size_t i = 0; i < a.size(); i++) a[i] += b[i]; }
// Transfer function of one (composite) node: expected arrivals per id at its inputs -> expected emissions per id at its outputs.
// With commit the per-probe cumulative expectations are updated; returns the number of body invocations this adds.
static long transfer(Scen& s, NodeRec& n, const EV* Ein, EV* Eout, bool commit, bool round0) {
    long bodies = 0; int M = s.M;
    auto total = [&](const EV& e) { long t = 0; for (uint32_t v : e) t += v; return t; };
    auto pr = [&](int i, const EV& e) { if (commit) add_to(n.probes[i]->exp, e); bodies += total(e); };
    switch (n.kind) {
    case K_FQ: case K_FL: case K_FR: case K_ASYNC: pr(0, Ein[0]); Eout[0] = Ein[0]; break;
    case K_LFAN: for (size_t i = 0; i < (commit ? n.probes.size() : (size_t)(2 + !(n.variant & 1))); i++) pr((int)i, Ein[0]); Eout[0] = Ein[0]; break;
    case K_LIM: pr(0, Ein[0]); pr(1, Ein[0]); Eout[0] = Ein[0]; break;
    case K_FAN: for (int w = 0; w < n.k; w++) { if (commit) add_to(n.probes[w]->exp, Ein[0]); } bodies += total(Ein[0]); Eout[0] = Ein[0]; break;
    case K_Q: case K_B: case K_PQ: case K_SEQ: if (commit && n.drain) add_to(n.probes[0]->exp, Ein[0]); Eout[0] = Ein[0]; break;
    case K_BC: case K_OW: Eout[0] = Ein[0]; break;
    case K_MF: pr(0, Ein[0]); Eout[0] = Ein[0]; Eout[1] = Ein[0]; for (int x = 0; x < M; x++) { if (route(x) == 2) Eout[0][x] = 0; if (route(x) == 1) Eout[1][x] = 0; } break;
    case K_SPLIT: pr(0, Ein[0]); Eout[0] = Ein[0]; Eout[1] = Ein[0]; break;
    case K_IDX: pr(0, Ein[0]); pr(1, Ein[1]); Eout[0] = Ein[0]; add_to(Eout[0], Ein[1]); break;
    case K_JOIN: pr(0, Ein[0]); if (commit) add_to(n.probes[1]->exp, Ein[0]); for (size_t i = 2; i < (commit ? n.probes.size() : (size_t)2); i++) pr((int)i, Ein[0]);
        if (!commit) for (int a = 0; a < 2; a++) if (((n.variant >> (a * 4)) & 15) == 4 && n.policy != JP_RESERVING) bodies += total(Ein[0]);
        Eout[0] = Ein[0]; break;
    case K_CONT: {
        int na = 1 + n.variant; long fires = total(Ein[0]);
        for (int a = 0; a < na; a++) { if (commit) add_to(n.probes[a]->exp, Ein[0]); bodies += fires; }
        EV e(M, 0); for (long k = n.fires_total; k < n.fires_total + fires; k++) e[k % M]++;
        if (commit) { add_to(n.probes[na]->exp, e); n.fires_total += fires; }
        bodies += fires; Eout[0] = e;
    } break;
    case K_IN: case K_INR: {
        EV e(M, 0);
        if (round0 && (n.kind == K_INR || !n.succ[0].empty())) for (int id : n.src_ids) e[id] = 1;
        pr(0, e); if (n.kind == K_INR) pr(1, e);
        Eout[0] = e;
    } break;
    }
    return bodies;
}

// Propagates one round through the DAG (edges go from lower to higher node index). ein_at (optional) receives the arrivals per node input.
static long propagate(Scen& s, bool commit, bool round0, std::vector<EV>* ein_at = nullptr) {
    int M = s.M; long bodies = 0;
    std::vector<EV> Ein(s.NN * 2, EV(M, 0));
    for (int x = 0; x < M; x++) if (s.ext_target[x].first >= 0) Ein[s.ext_target[x].first * 2 + s.ext_target[x].second][x] += 1;
    for (int i = 0; i < s.NN; i++) {
        NodeRec& n = *s.nodes[i];
        EV Eout[2] = { EV(M, 0), EV(M, 0) };
        bodies += transfer(s, n, &Ein[i * 2], Eout, commit, round0);
        for (int o = 0; o < n.nout; o++) for (auto& e : n.succ[o]) add_to(Ein[e.first * 2 + e.second], Eout[o]);
    }
    if (ein_at) *ein_at = Ein;
    return bodies;
}

// ---------------------------------------------------------------------------------------------- generator
static int pick_kind(Rng& r, bool first) {
    static const int w[K_COUNT] = { /*FQ*/ 14, /*FL*/ 8, /*FR*/ 12, /*Q*/ 6, /*B*/ 5, /*PQ*/ 5, /*BC*/ 6, /*LIM*/ 9, /*MF*/ 7, /*SEQ*/ 3, /*OW*/ 2, /*JOIN*/ 9, /*SPLIT*/ 3, /*IDX*/ 4, /*ASYNC*/ 6, /*CONT*/ 4, /*FAN*/ 8, /*IN*/ 3, /*INR*/ 3, /*LFAN*/ 8 };
    int tot = 0; for (int i = 0; i < K_COUNT; i++) tot += w[i] * ((first && (i == K_IN || i == K_INR)) ? 3 : 1);
    int v = (int)r.below(tot);
    for (int i = 0; i < K_COUNT; i++) { int ww = w[i] * ((first && (i == K_IN || i == K_INR)) ? 3 : 1); if (v < ww) return i; v -= ww; }
    return K_FQ;
}
static int pick_limit(Rng& r, bool allow_unlimited) { unsigned k = (unsigned)r.below(100); return k < 40 ? 1 : k < 60 ? 2 : k < 72 ? 3 : allow_unlimited ? 0 : 1 + (int)r.below(3); }

static void gen_params(NodeRec& n, Rng& r) {
    n.nin = 1; n.nout = 1; n.single_out[0] = n.single_out[1] = false;
    switch (n.kind) {
    case K_FQ: n.limit = pick_limit(r, true); break;
    case K_FL: n.limit = r.chance(1, 2) ? 0 : pick_limit(r, false); n.variant = (int)r.below(2); break;
    case K_FR: n.limit = pick_limit(r, false); n.front = (int)r.below(3); n.variant = r.chance(1, 5); break;
    case K_Q: case K_B: case K_PQ: case K_SEQ: n.single_out[0] = true; break;
    case K_LIM: n.th = r.chance(1, 2) ? 1 + (int)r.below(3) : r.chance(1, 2) ? 8 : 1; n.limit = r.chance(2, 3) ? 1 : pick_limit(r, true); n.front = (int)r.below(3); n.variant = (int)r.below(2); n.policy = (int)r.below(2); break;
    case K_MF: n.nout = 2; n.limit = pick_limit(r, true); n.variant = (int)r.below(3); n.front = (int)r.below(3); if (n.variant == 2 && !n.limit) n.limit = 1 + (int)r.below(2); break;
    case K_SPLIT: n.nout = 2; n.limit = pick_limit(r, true); break;
    case K_IDX: n.nin = 2; n.limit = pick_limit(r, true); break;
    case K_JOIN: n.policy = (int)r.below(3); n.limit = pick_limit(r, true); n.front = (int)r.below(2); if (n.front && !n.limit) n.limit = 1; n.variant = (int)r.below(5) | ((int)r.below(5) << 4); break;
    case K_ASYNC: n.limit = r.chance(1, 2) ? 0 : pick_limit(r, false); n.variant = (int)r.below(2); break;
    case K_CONT: n.variant = (int)r.below(2); n.policy = (int)r.below(2); break;
    case K_FAN: n.k = 2 + (int)r.below(2); n.limit = pick_limit(r, false); n.front = (int)r.below(3); break;
    case K_LFAN: n.limit = pick_limit(r, true); n.variant = (int)r.below(6); break;
    case K_IN: n.nin = 0; break;
    case K_INR: n.nin = 0; n.limit = 1 + (int)r.below(2); break;
    default: break;
    }
}

// Builds the data of a random DAG scenario (no flow-graph objects yet).
static void gen_topology(Scen& s, Rng& r, int max_nodes) {
    unsigned nk = (unsigned)r.below(100);
    s.NN = nk < 12 ? 1 + (int)r.below(2) : nk < 70 ? 3 + (int)r.below(5) : 3 + (int)r.below(std::max(1, max_nodes - 2));
    unsigned mk_ = (unsigned)r.below(100);
    s.M = mk_ < 10 ? 1 + (int)r.below(5) : mk_ < 70 ? 8 + (int)r.below(90) : 30 + (int)r.below(250);
    for (int i = 0; i < s.NN; i++) {
        s.nodes.emplace_back(new NodeRec); NodeRec& n = *s.nodes.back(); n.idx = i;
        n.kind = pick_kind(r, i == 0);
        if (i > 0 && (n.kind == K_IN || n.kind == K_INR) && !r.chance(1, 2)) n.kind = K_FQ;
        gen_params(n, r);
    }
    // wiring: every input port of node i>0 gets 1-2 predecessors among the output ports of earlier nodes
    for (int i = 1; i < s.NN; i++) {
        NodeRec& n = *s.nodes[i];
        for (int p = 0; p < n.nin; p++) {
            int np = 1 + (r.chance(1, 4) ? 1 : 0);
            if (r.chance(1, 14)) np = 0;                      // another entry point
            for (int k = 0; k < np; k++) {
                std::vector<std::pair<int, int>> cand;
                for (int j = 0; j < i; j++) for (int o = 0; o < s.nodes[j]->nout; o++) {
                    NodeRec& c = *s.nodes[j];
                    if (c.single_out[o] && !c.succ[o].empty()) continue;
                    bool dup = false; for (auto& e : c.succ[o]) if (e.first == i && e.second == p) dup = true;
                    if (!dup) cand.push_back({ j, o });
                }
                if (cand.empty()) break;
                auto c = r.chance(1, 2) ? cand[cand.size() - 1 - r.below(std::min<size_t>(cand.size(), 3))] : r.pick(cand);   // prefer recent nodes: longer chains
                s.nodes[c.first]->succ[c.second].push_back({ i, p }); n.npred[p]++;
            }
        }
    }
    // sources: external entry ports and input nodes
    std::vector<std::pair<int, int>> ext; std::vector<int> inputs;
    for (int i = 0; i < s.NN; i++) { NodeRec& n = *s.nodes[i]; if (n.nin == 0) inputs.push_back(i); for (int p = 0; p < n.nin; p++) if (!n.npred[p]) ext.push_back({ i, p }); }
    s.ext_target.assign(s.M, { -1, -1 });
    for (int x = 0; x < s.M; x++) {
        size_t tot = ext.size() * 3 + inputs.size(); size_t v = r.below(tot);
        if (v < ext.size() * 3) s.ext_target[x] = ext[v / 3]; else s.nodes[inputs[v - ext.size() * 3]]->src_ids.push_back(x);
    }
    // fit the volume, then settle the kinds that need a property of the arrivals
    for (;;) {
        long b = propagate(s, false, true);
        if (b <= 30000 || s.M <= 4) break;
        s.M /= 2; s.ext_target.resize(s.M);
        for (int i : inputs) { auto& v = s.nodes[i]->src_ids; v.erase(std::remove_if(v.begin(), v.end(), [&](int id) { return id >= s.M; }), v.end()); }
    }
    bool has_cont = false; for (auto& n : s.nodes) if (n->kind == K_CONT) has_cont = true;
    std::vector<EV> ein; propagate(s, false, true, &ein);
    int seqs = 0;
    for (int i = 0; i < s.NN; i++) {
        NodeRec& n = *s.nodes[i];
        uint32_t mx = 0; for (uint32_t v : ein[i * 2]) mx = std::max(mx, v);
        if (n.kind == K_SEQ && (has_cont || mx > 1 || seqs > 0)) n.kind = K_Q;
        if (n.kind == K_SEQ) seqs++;
        // key_matching ports reject a key that is still pending on the port (senders that do not buffer then drop it, by contract), so a key may
        // arrive only once per round. continue_nodes emit k mod M with k running on across rounds: their ids collide with other arrivals in a
        // later round even when round 0 is collision-free, and this decision is taken from round 0 only - no key policy next to them.
        if (n.kind == K_JOIN && n.policy == JP_KEY && (mx > 1 || has_cont)) n.policy = r.chance(1, 2) ? JP_QUEUEING : JP_RESERVING;
    }
}

std::string Scen::describe() const {
    Json j; j.obj(); j.kv("scenario_seed", (unsigned long long)seed); j.kv("mode", mode == MODE_G ? "G" : mode == MODE_L ? "L" : "C"); j.kv("messages", M); j.kv("rounds", rounds); j.kv("putter_threads", nput);
    j.kv("arena", conc); j.kv("early_wait_for_all", early_wait);
    if (mode == MODE_L) j.kv("lossy_topology", lossy_kind);
    if (mode == MODE_C) { j.kv("trigger_at_invocation", (long long)trigger_at); j.kv("trigger", trigger_throw ? "throw" : "cancel"); }
    j.key("nodes").arr();
    for (auto& n : nodes) { std::string d = std::to_string(n->idx) + ": " + n->desc + " ->"; for (int o = 0; o < n->nout; o++) for (auto& e : n->succ[o]) d += " " + (n->nout > 1 ? "[port " + std::to_string(o) + "]" : std::string()) + std::to_string(e.first) + (nodes[e.first]->nin > 1 ? "." + std::to_string(e.second) : std::string()); j.val(d); }
    j.end_arr();
    j.kv("replay", "c14 --one " + std::to_string(seed) + " --onemode " + std::string(mode == MODE_G ? "G" : mode == MODE_L ? "L" : "C") + " --conc " + std::to_string(conc) + " --repeat 2000");
    j.end_obj(); return j.s;
}
