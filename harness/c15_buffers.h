// C15 harness: queue_node order, sequencer_node, priority_queue_node with a blocked successor
#pragma once
#include "c15_common.h"

struct Stats {   // process-wide evidence counters (relaxed)
    std::atomic<long long> q_released{0}, q_reserved{0}, seq_dups_rejected{0}, seq_accepted{0}, prio_gated{0}, prio_pairs_checked{0}, resv_tuples{0}, resv_competitor_items{0},
        jq_tuples{0}, jk_tuples{0}, jk_dup_rejected{0}, jk_unmatched{0}, lim_inline_decs{0}, lim_ext_decs{0}, lim_at_threshold{0}, lim_rejected_puts{0}, lim_delivered{0}, limb_delivered{0}, limb_batches{0}, limb_multi_batches{0}, limb_at_threshold{0}, limb_inline_batches{0},
        ow_late{0}, ow_values{0}, wo_rejected{0}, bc_msgs{0}, sp_msgs{0}, ix_msgs{0}, ring_ops{0}, ring_reserved_grows{0}, ring_wraps{0}, ring_get_while_reserved_refused{0}, task_puts{0};
};
static Stats ST;

// ---------------------------------------------------------------------------------------------- queue_node
// consumer kinds: 0 accepting serial sink, 1 rejecting serial sink, 2 two rejecting serial sinks, 3 one try_get thread, 4 two try_get threads,
// 5 a reserving thread (try_reserve, then release or consume), 6 a reserving thread and a try_get thread
static void run_queue(Scn& s, tbb::task_arena& A) {
    Rng r(s.seed);
    GraphBox gb(A); fl::graph& g = gb.g();
    int np = 1 + (int)r.below(4), kind = (int)r.below(7);
    int nmax = r.chance(1, 5) ? 6 : 120;
    fl::queue_node<int> q(g);
    Producers ps(s, g, r, np, 1, nmax, true);
    ps.put = [&](int p, int i) { return q.try_put(mkid(p, i)); };
    s.params = "queue_node producers=" + std::to_string(np) + " items=" + std::to_string(ps.total()) + " consumer_kind=" + std::to_string(kind);
    const std::string K = "c15.queue";
    std::unique_ptr<LogSink<int>> s1, s2;
    if (kind <= 2) { s1.reset(new LogSink<int>(s, g, kind == 0 ? SK_ACCEPT : SK_REJECT, r, ps.total())); fl::make_edge(q, *s1->in); }
    if (kind == 2) { s2.reset(new LogSink<int>(s, g, SK_REJECT, r, ps.total())); fl::make_edge(q, *s2->in); }
    int nget = kind == 3 ? 1 : kind == 4 ? 2 : kind == 6 ? 1 : 0, nres = kind >= 5 ? 1 : 0;
    std::vector<std::vector<int>> got(2); std::vector<int> consumed; long releases = 0, reserves = 0;
    std::atomic<int> prod_done{0};
    int rel_den = 2 + (int)r.below(4);
    uint64_t js = r.next();
    g_phase.store("queue: producers/consumers running");
    crew().run(np + nget + nres, [&](int idx) {
        if (idx < np) { ps.run_producer(idx, mix(js, idx)); prod_done.fetch_add(1); return; }
        Rng rr(mix(js, 50 + idx));
        if (idx < np + nget) {           // try_get consumer: stops once the producers are done and the queue looks empty
            std::vector<int>& mine = got[idx - np];
            for (;;) {
                bool pd = prod_done.load() == np;
                int v = -1;
                if (q.try_get(v)) { s.consumer_event(); mine.push_back(v); progress(); }
                else if (pd) break; else sched_yield();
                pace(rr, ps.pattern);
            }
        } else {                         // reserving consumer
            int lastrel = -1;
            for (;;) {
                bool pd = prod_done.load() == np;
                int v = -1;
                if (q.try_reserve(v)) {
                    s.consumer_event(); reserves++;
                    if (lastrel >= 0 && nget == 0 && v != lastrel) s.fail(K + ".released-item-not-kept", "try_release of item " + std::to_string(lastrel >> kIdBits) + ":" + std::to_string(lastrel & kIdMask) + " was followed by a reservation of item " + std::to_string(v >> kIdBits) + ":" + std::to_string(v & kIdMask) + " (single consumer: the released item must still be at the front)");
                    pace(rr, 2);
                    if (rr.below(rel_den) == 0) { q.try_release(); releases++; lastrel = v; } else { q.try_consume(); consumed.push_back(v); lastrel = -1; }
                    progress();
                } else if (pd) break; else sched_yield();
            }
        }
    });
    g_phase.store("queue: wait_for_all");
    g.wait_for_all(); ps.after_wait();
    std::vector<int> rest; { int v; while (q.try_get(v)) rest.push_back(v); }
    for (int p = 0; p < np; p++) for (int i = 0; i < ps.n[p]; i++) if (!ps.puts[p][i].ok) s.fail(K + ".put-rejected", "queue_node::try_put returned false for item " + std::to_string(p) + ":" + std::to_string(i));
    ST.q_released += releases; ST.q_reserved += reserves;
    std::vector<int> all;
    auto add = [&](const std::vector<int>& v) { all.insert(all.end(), v.begin(), v.end()); };
    if (kind == 0 || kind == 1) { add(s1->log); add(rest); check_fifo(s, K, ps, all, false, true, "queue_node -> serial sink"); if (!rest.empty()) s.fail(K + ".stuck", std::to_string(rest.size()) + " items still buffered after wait_for_all although the sink accepts everything eventually"); }
    else if (kind == 3) { add(got[0]); add(rest); check_fifo(s, K, ps, all, false, true, "queue_node drained by one try_get thread"); }
    else if (kind == 5) { add(consumed); add(rest); check_fifo(s, K, ps, all, false, true, "queue_node drained by one reserving thread (" + std::to_string(releases) + " releases)"); }
    else {
        // several consumers: every consumer sees a FIFO-consistent subsequence; together exactly once
        std::vector<const std::vector<int>*> parts;
        if (kind == 2) { parts = { &s1->log, &s2->log }; if (!rest.empty()) s.fail(K + ".stuck", std::to_string(rest.size()) + " items still buffered after wait_for_all with two rejecting sinks"); }
        else if (kind == 4) parts = { &got[0], &got[1] };
        else parts = { &got[0], &consumed };
        for (auto* pv : parts) { check_fifo(s, K, ps, *pv, 2, true, "queue_node, one of several consumers"); add(*pv); }
        add(rest);
        check_fifo(s, K, ps, all, false, false, "queue_node, all consumers together");
    }
    s.sig = seq_sig(mix(0x51, kind), all);
    if (s.witness.load() == 0 && switches(all) >= 2) s.witness.store(1);
    if (!s.fails) {
        Json j; j.obj(); j.kv("class", "queue"); j.kv("producers", np); j.kv("consumer_kind", kind); j.kv("releases", (long long)releases);
        j.key("leaving_order(producer:index)").arr(); for (size_t i = 0; i < all.size() && i < 24; i++) j.val(std::to_string(all[i] >> kIdBits) + ":" + std::to_string(all[i] & kIdMask)); j.end_arr();
        j.end_obj(); s.sample = j.s;
    }
}

// ---------------------------------------------------------------------------------------------- sequencer_node
// message = uid << 12 | sequence number. dupmode 0: the numbers 0..N-1 are dealt to the producers, each in its own random order;
// 1: every producer puts random numbers (repeats, gaps), then the driver puts every number once more; 2: every producer puts all numbers.
static void run_seq(Scn& s, tbb::task_arena& A) {
    Rng r(s.seed);
    GraphBox gb(A); fl::graph& g = gb.g();
    int np = 1 + (int)r.below(4), N = r.chance(1, 5) ? 1 + (int)r.below(6) : 1 + (int)r.below(150), dupmode = (int)r.below(3), sk = r.chance(1, 3) ? SK_REJECT : SK_ACCEPT;
    fl::sequencer_node<int> sq(g, [](const int& v) { return (size_t)(v & kIdMask); });
    LogSink<int> sink(s, g, sk, r, N);
    bool late_edge = r.chance(1, 8);
    if (!late_edge) fl::make_edge(sq, *sink.in);
    std::vector<std::vector<int>> plan(np);
    if (dupmode == 0) { std::vector<int> perm(N); for (int i = 0; i < N; i++) perm[i] = i; for (int i = N - 1; i > 0; i--) std::swap(perm[i], perm[r.below(i + 1)]); for (int i = 0; i < N; i++) plan[r.below(np)].push_back(perm[i]); if (r.chance(1, 3)) for (auto& v : plan) std::sort(v.rbegin(), v.rend()); }
    else if (dupmode == 1) { for (int p = 0; p < np; p++) { int m = 1 + (int)r.below(2 * N); for (int i = 0; i < m; i++) plan[p].push_back((int)r.below(N)); } }
    else { for (int p = 0; p < np; p++) { for (int i = 0; i < N; i++) plan[p].push_back(i); int mode = (int)r.below(3); if (mode == 1) std::reverse(plan[p].begin(), plan[p].end()); else if (mode == 2) for (int i = N - 1; i > 0; i--) std::swap(plan[p][i], plan[p][r.below(i + 1)]); } }
    s.params = "sequencer_node producers=" + std::to_string(np) + " N=" + std::to_string(N) + " dupmode=" + std::to_string(dupmode) + " sink=" + (sk == SK_REJECT ? "rejecting" : "accepting") + (late_edge ? " late-edge" : "");
    const std::string K = "c15.seq";
    struct Att { int seq; bool ok; };
    std::vector<std::vector<Att>> att(np + 1);
    int pattern = (int)r.below(5); uint64_t js = r.next();
    g_phase.store("seq: producers running");
    crew().run(np, [&](int p) {
        Rng rr(mix(js, p)); s.active.fetch_add(1, RLX); s.touch();
        att[p].reserve(plan[p].size());
        for (size_t k = 0; k < plan[p].size(); k++) { int v = (int)(((p << 10 | (int)k) << kIdBits) | plan[p][k]); bool ok = sq.try_put(v); att[p].push_back({ plan[p][k], ok }); pace(rr, pattern); }
        s.active.fetch_sub(1, RLX);
    });
    if (dupmode == 1) for (int i = 0; i < N; i++) { int v = (int)(((np << 10 | i) << kIdBits) | i); att[np].push_back({ i, sq.try_put(v) }); }
    if (late_edge) fl::make_edge(sq, *sink.in);
    g_phase.store("seq: wait_for_all");
    g.wait_for_all();
    // oracle
    std::vector<int> accepted(N, 0), acc_uid(N, -1); long dups = 0;
    for (int p = 0; p <= np; p++) for (size_t k = 0; k < att[p].size(); k++) { if (att[p][k].ok) { accepted[att[p][k].seq]++; acc_uid[att[p][k].seq] = p << 10 | (int)k; } else dups++; }
    ST.seq_dups_rejected += dups;
    for (int i = 0; i < N; i++) {
        if (accepted[i] > 1) s.fail(K + ".duplicate-accepted", "sequence number " + std::to_string(i) + " was accepted " + std::to_string(accepted[i]) + " times (a repeated number must be rejected)");
        if (accepted[i] == 0) s.fail(K + ".none-accepted", "every try_put of sequence number " + std::to_string(i) + " returned false although the number had never been accepted before");
        ST.seq_accepted += accepted[i];
    }
    const std::vector<int>& out = sink.log;
    size_t good = 0; while (good < out.size() && good < (size_t)N && (out[good] & kIdMask) == (int)good) good++;
    if (good < out.size()) s.fail(K + ".order", "output position " + std::to_string(good) + " carries sequence number " + std::to_string(out[good] & kIdMask) + "; output: " + [&] { std::vector<int> o; for (int v : out) o.push_back(v & kIdMask); return join_ints(o, good > 3 ? good - 3 : 0, 24); }());
    else if (out.size() < (size_t)N) {
        int miss = (int)out.size();
        s.fail(accepted[miss] ? K + ".accepted-not-forwarded" : K + ".gap-or-missing", "only " + std::to_string(out.size()) + " of " + std::to_string(N) + " messages were forwarded: sequence number " + std::to_string(miss) + " (accepted by try_put " + std::to_string(accepted[miss]) + " time(s)) never left the node after wait_for_all");
    }
    for (size_t i = 0; i < good; i++) if (accepted[i] == 1 && (out[i] >> kIdBits) != acc_uid[i]) { s.fail(K + ".rejected-put-delivered", "the message forwarded for sequence number " + std::to_string(i) + " is not the one whose try_put returned true"); break; }
    s.sig = mix(mix(0x5E, N), dups); for (int p = 0; p < np; p++) { int a = 0; for (auto& e : att[p]) if (e.ok) a++; s.sig = mix(s.sig, a); }
    if (!s.fails && dups > 2 && np > 1) { Json j; j.obj(); j.kv("class", "sequencer"); j.kv("N", N); j.kv("producers", np); j.kv("dupmode", dupmode); j.kv("puts_rejected_as_duplicates", (long long)dups); j.kv("forwarded", (long long)out.size()); j.end_obj(); s.sample = j.s; }
}

// ---------------------------------------------------------------------------------------------- priority_queue_node
// value = priority << 14 | unique id, so the values are totally ordered. mode 0: rejecting serial sink whose first invocation waits until
// all producers are done (everything else is then buffered: the rest must come out in strictly descending order); 1: rejecting sink with
// random delays (the pairwise rule of the design, needs stamps); 2: edge made after all puts (all must come out descending);
// 3: accepting sink (conservation only); 4: try_get thread while producers run (descending wrt. completed puts).
static void run_prio(Scn& s, tbb::task_arena& A) {
    Rng r(s.seed);
    GraphBox gb(A); fl::graph& g = gb.g();
    int np = 1 + (int)r.below(4), mode = (int)r.below(5);
    fl::priority_queue_node<int> pq(g);
    int prange = (int)r.pick(std::vector<int>{ 2, 4, 16, 1000 });
    Producers ps(s, g, r, np, 1, r.chance(1, 5) ? 5 : 60, mode != 1 && mode != 4);
    std::vector<std::vector<int>> val(np);
    { Rng vr(r.next()); for (int p = 0; p < np; p++) for (int i = 0; i < ps.n[p]; i++) val[p].push_back((int)(vr.below(prange) << 14) | mkid(p, i)); }
    ps.put = [&](int p, int i) { return pq.try_put(val[p][i]); };
    s.params = "priority_queue_node producers=" + std::to_string(np) + " items=" + std::to_string(ps.total()) + " mode=" + std::to_string(mode) + " priorities=" + std::to_string(prange);
    const std::string K = "c15.prio";
    std::atomic<int> prod_done{0};
    LogSink<int> sink(s, g, (mode == 3 || mode == 2) && r.chance(1, 2) ? SK_ACCEPT : (mode == 3 ? SK_ACCEPT : SK_REJECT), r, ps.total());
    bool gated = false;
    if (mode == 0) sink.pre = [&](const int&) { if (!gated) { gated = true; ST.prio_gated++; int spins = 0; while (prod_done.load() < np) { if (++spins > 50) sched_yield(); } } };
    if (mode != 2 && mode != 4) fl::make_edge(pq, *sink.in);
    std::vector<int> got; std::vector<uint64_t> got_call, got_ret;
    uint64_t js = r.next();
    g_phase.store("prio: producers running");
    crew().run(np + (mode == 4 ? 1 : 0), [&](int idx) {
        if (idx < np) { ps.run_producer(idx, mix(js, idx)); prod_done.fetch_add(1); return; }
        Rng rr(mix(js, 77));
        for (;;) { bool pd = prod_done.load() == np; int v = -1; uint64_t c = stamp(); if (pq.try_get(v)) { s.consumer_event(); got.push_back(v); got_call.push_back(c); got_ret.push_back(stamp()); progress(); } else if (pd) break; else sched_yield(); pace(rr, 2); }
    });
    // mode 0: the via_task feeders may still be running; the gate waits for prod_done only when all producers are direct
    if (mode == 2) { g.wait_for_all(); ps.after_wait(); fl::make_edge(pq, *sink.in); }
    g_phase.store("prio: wait_for_all");
    g.wait_for_all(); ps.after_wait();
    std::vector<int> rest; { int v; while (pq.try_get(v)) rest.push_back(v); }
    const std::vector<int>& out = mode == 4 ? got : sink.log;
    // conservation
    std::vector<int> ids; for (int v : out) ids.push_back(v & ((1 << 14) - 1)); for (int v : rest) ids.push_back(v & ((1 << 14) - 1));
    check_fifo(s, K, ps, ids, false, false, "priority_queue_node");
    for (size_t k = 0; k < out.size(); k++) { int id = out[k] & ((1 << 14) - 1), p = id >> kIdBits, i = id & kIdMask; if (p < np && i < ps.n[p] && val[p][i] != out[k]) { s.fail(K + ".phantom", "value " + std::to_string(out[k]) + " was never put"); break; } }
    if (mode != 4 && !rest.empty()) s.fail(K + ".stuck", std::to_string(rest.size()) + " items still buffered after wait_for_all");
    bool any_task = false; for (int p = 0; p < np; p++) any_task |= ps.via_task[p] != 0;
    auto pr = [&](int v) { return std::to_string(v >> 14) + "/" + std::to_string((v >> kIdBits) & 3) + ":" + std::to_string(v & kIdMask); };
    if ((mode == 0 && !any_task) || mode == 2) {
        // from the second (mode 0) / first (mode 2) item on, everything was buffered when it was chosen: strictly descending
        for (size_t k = mode == 0 ? 2 : 1; k < out.size(); k++) if (out[k] > out[k - 1]) { s.fail(K + ".order", "all items were buffered, yet " + pr(out[k - 1]) + " (position " + std::to_string(k - 1) + ") was forwarded before the higher-priority " + pr(out[k]) + "; output (priority/producer:index): " + [&] { std::string t; for (size_t q = k > 4 ? k - 4 : 0; q < out.size() && q < k + 6; q++) t += pr(out[q]) + " "; return t; }()); break; }
        ST.prio_pairs_checked += (long long)out.size();
    } else if (!g_light && (mode == 1 || mode == 4 || mode == 0)) {
        // X = out[k] was chosen after out[k-1] had been handed over (sink entry / try_get return). A Y that leaves later, is higher, and whose put
        // had returned before that moment was in the buffer when X was chosen.
        std::vector<uint64_t> putret(ps.np << kIdBits, 0);
        for (int p = 0; p < np; p++) for (int i = 0; i < ps.n[p]; i++) putret[mkid(p, i)] = ps.puts[p][i].ret;
        long pairs = 0;
        for (size_t k = 1; k < out.size() && !s.fails; k++) {
            uint64_t before = mode == 4 ? got_call[k] : sink.at[k - 1];     // X chosen after this moment
            for (size_t y = k + 1; y < out.size(); y++) {
                pairs++;
                if (out[y] > out[k]) { uint64_t pr_ = putret[out[y] & ((1 << 14) - 1)]; if (pr_ && pr_ < before) { s.fail(K + ".order", pr(out[k]) + " was forwarded at position " + std::to_string(k) + " while the higher-priority " + pr(out[y]) + " (try_put returned at stamp " + std::to_string(pr_) + " < " + std::to_string(before) + ", forwarded at position " + std::to_string(y) + ") was buffered"); break; } }
            }
        }
        ST.prio_pairs_checked += pairs;
    }
    s.sig = mix(0x9710, mode); for (int v : out) s.sig = mix(s.sig, (uint64_t)((v >> kIdBits) & 3));
    if (s.witness.load() == 0 && switches(ids) >= 2) s.witness.store(1);
    if (!s.fails && mode == 0 && out.size() > 6) { Json j; j.obj(); j.kv("class", "priority_queue (first sink invocation blocks until all puts are done)"); j.kv("producers", np); j.key("forwarding_order(priority/producer:index)").arr(); for (size_t k = 0; k < out.size() && k < 16; k++) j.val(pr(out[k])); j.end_arr(); j.end_obj(); s.sample = j.s; }
}
