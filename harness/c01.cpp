// C01: every submitted unit of work runs exactly once (or is skipped exactly once if its group was cancelled);
// a waiting call returns only after everything submitted to it, transitively, finished, and sees its writes.
//
// Scenario = random task tree built from task_group run/defer/run_and_wait, tasks that submit tasks,
// parallel_for (4 partitioners, affinity reused), parallel_invoke, task_arena::execute (nested arena, delegation
// when it is saturated), isolate, enqueue of task_handles and fire-and-forget enqueue; executed by 1-4 external
// threads at once in a hot arena. Units have unique pre-order ids, so "everything under this construct" is an id range.
#define VRT_IMPL
#include "vrt_tbb.h"
#include <oneapi/tbb.h>
#include <memory>

using namespace vrt;

enum Kind { LEAF, GROUP, SPAWNER, PFOR, INVOKE, EXEC, ISOLATE, ENQ_FF, ISO2 };
enum How { RUN, DEFER_RUN, RUN_AND_WAIT, ENQ_H };
static const char* kind_name[] = { "leaf", "group", "spawner", "pfor", "invoke", "exec", "isolate", "enq_ff", "isolate-split" };

struct Node {
    Kind kind = LEAF; int id = 0, lo = 0, hi = 0; std::vector<int> kids; std::vector<int> how;
    int work = 0; int part = 0; bool cancel_here = false; int canceller = -1; bool detached = false;
    int grain = 1; int split = 0;   // ISO2: kids[0..split) go to the inner group, the rest to the outer one
};

struct Unit {
    std::atomic<int> ran{0}, skipped{0}, submitted{0};
    long payload = 0;                        // plain: written by the body, read by the waiter (TSan checks the edge)
    std::atomic<uint64_t> exit_seq{0};
    std::atomic<int> thread{-1};
};

static std::atomic<uint64_t> g_seq{1};
static bool g_light = false;                 // tsan: no global stamps
static inline uint64_t stamp() { return g_light ? 1 : g_seq.fetch_add(1, std::memory_order_relaxed); }

struct Scen;
static void run_node(Scen& s, int n, tbb::task_group* g);
static void submit_detached(Scen& s, int c);

struct Scen {
    std::vector<Node> nodes;
    std::unique_ptr<Unit[]> u;
    int nunits = 0;
    uint64_t seed = 0;
    tbb::task_arena* A = nullptr; tbb::task_arena* B = nullptr; tbb::task_arena* C = nullptr;
    std::atomic<int> detached_left{0};
    std::atomic<int> fails{0};
    std::string fail_first; std::mutex fm;
    bool any_cancel = false;
    int arena_conc = 0, drivers = 0;

    void fail(const std::string& key, const std::string& what) {
        if (fails.fetch_add(1) == 0) { std::lock_guard<std::mutex> l(fm); fail_first = key + "|" + what; }
    }
    std::string describe() const {
        Json j; j.obj(); j.kv("seed", (unsigned long long)seed); j.kv("units", nunits); j.kv("arena", arena_conc); j.kv("drivers", drivers);
        j.key("tree").arr();
        for (auto& n : nodes) { if (j.s.size() > 3000) break; j.obj(); j.kv("id", n.id); j.kv("k", kind_name[n.kind]); j.kv("hi", n.hi); if (n.kind == PFOR) j.kv("part", n.part); if (n.cancel_here) j.kv("cancels", true); j.end_obj(); }
        j.end_arr(); j.end_obj(); return j.s;
    }
};

// ---- functor whose destruction without a call means "skipped"
struct UnitFn {
    Scen* s; int id; tbb::task_group* g; mutable bool ran = false;
    UnitFn(Scen* s_, int id_, tbb::task_group* g_) : s(s_), id(id_), g(g_) { s->u[id].submitted.fetch_add(1, std::memory_order_relaxed); }
    UnitFn(UnitFn&& o) noexcept : s(o.s), id(o.id), g(o.g), ran(o.ran) { o.id = -1; }
    UnitFn(const UnitFn&) = delete;
    ~UnitFn() { if (id >= 0 && !ran) s->u[id].skipped.fetch_add(1, std::memory_order_relaxed); }
    void operator()() const { ran = true; run_node(*s, id, g); }
};

static bool under_cancel(const Scen& s, int id) {
    // is some group at or above this unit a cancelling one? (nodes are in pre-order; search ancestors by range)
    for (auto& n : s.nodes) if (n.cancel_here && n.lo < id && id < n.hi) return true;
    return false;
}

// after a waiting construct over units [lo,hi) returned
static void check_range(Scen& s, int lo, int hi, uint64_t ret_seq, bool cancelled_scope, const char* what) {
    for (int i = lo; i < hi; i++) {
        const Node& n = s.nodes[i];
        if (n.detached) continue;
        Unit& u = s.u[i];
        int ran = u.ran.load(std::memory_order_relaxed), sk = u.skipped.load(std::memory_order_relaxed), sub = u.submitted.load(std::memory_order_relaxed);
        bool relaxed_ok = cancelled_scope || (s.any_cancel && under_cancel(s, i));
        if (ran > 1) s.fail("c01.ran-twice", std::string(what) + ": unit " + std::to_string(i) + " ran " + std::to_string(ran) + " times");
        if (ran == 1 && sk > 0) s.fail("c01.ran-and-skipped", std::string(what) + ": unit " + std::to_string(i));
        if (sk > 1) s.fail("c01.skipped-twice", std::string(what) + ": unit " + std::to_string(i));
        if (!relaxed_ok) {
            if (ran == 0) s.fail("c01.lost", std::string(what) + ": unit " + std::to_string(i) + " (" + kind_name[n.kind] + ") not run when the wait returned (submitted=" + std::to_string(sub) + " skipped=" + std::to_string(sk) + ")");
            if (sk) s.fail("c01.skipped-without-cancel", std::string(what) + ": unit " + std::to_string(i));
        } else if (sub > 0 && ran + sk != 1) {
            s.fail("c01.cancelled-unit-neither-ran-nor-skipped", std::string(what) + ": unit " + std::to_string(i) + " ran=" + std::to_string(ran) + " skipped=" + std::to_string(sk));
        }
        if (ran == 1) {
            if (u.payload != (long)(i * 2654435761u + 17)) s.fail("c01.write-not-visible", std::string(what) + ": payload of unit " + std::to_string(i) + " not visible to the waiter");
            uint64_t e = u.exit_seq.load(std::memory_order_relaxed);
            if (!g_light && (e == 0 || e > ret_seq)) s.fail("c01.wait-returned-early", std::string(what) + ": unit " + std::to_string(i) + " exit stamp " + std::to_string(e) + " after wait return stamp " + std::to_string(ret_seq));
        }
    }
}

struct PartPool {            // affinity partitioners are re-used across loops but never by two loops at once
    tbb::affinity_partitioner ap[6]; std::atomic<bool> busy[6];
    PartPool() { for (auto& b : busy) b.store(false); }
    int acquire(Rng& r) { int k = (int)r.below(6); for (int i = 0; i < 6; i++) { int j = (k + i) % 6; bool e = false; if (busy[j].compare_exchange_strong(e, true)) return j; } return -1; }
    void release(int j) { busy[j].store(false); }
};
static PartPool* g_pool;

static void run_node(Scen& s, int id, tbb::task_group* g) {
    Node& n = s.nodes[id];
    Unit& u = s.u[id];
    u.ran.fetch_add(1, std::memory_order_relaxed);
    u.thread.store(thread_ordinal(), std::memory_order_relaxed);
    if (n.work) spin_iters(n.work);
    switch (n.kind) {
    case LEAF: break;
    case GROUP: {
        tbb::task_group tg;
        bool waited_inline = false; tbb::task_group_status st_inline = tbb::complete;
        for (size_t k = 0; k < n.kids.size(); k++) {
            int c = n.kids[k];
            if (n.cancel_here && k == n.kids.size() / 2) tg.run([&tg] { tg.cancel(); });   // not a unit
            if (n.how[k] < 0) { submit_detached(s, c); continue; }
            switch (n.how[k]) {
            case RUN: tg.run(UnitFn(&s, c, &tg)); break;
            case DEFER_RUN: { tbb::task_handle h = tg.defer(UnitFn(&s, c, &tg)); if (c & 1) spin_iters(50); tg.run(std::move(h)); break; }
            case ENQ_H: {
                // Covered by this group's wait but executed in another arena. (Enqueuing into the arena the waiter sits
                // in would be a harness-made deadlock: nested waits do not take FIFO tasks, so once every slot holder
                // is in such a wait nobody is left at the outermost level to run them.)
                tbb::task_handle h = tg.defer(UnitFn(&s, c, &tg)); s.C->enqueue(std::move(h)); break; }
            case RUN_AND_WAIT: { UnitFn f(&s, c, &tg); st_inline = tg.run_and_wait(f); waited_inline = true; break; }
            }
        }
        tbb::task_group_status st = tg.wait();
        uint64_t ret = stamp();
        if (waited_inline && st_inline == tbb::canceled) st = tbb::canceled;   // run_and_wait already reported (and reset) the cancellation
        bool outer_cancel = s.any_cancel && under_cancel(s, id);
        check_range(s, n.lo + 1, n.hi, ret, n.cancel_here, "task_group::wait");
        if (!n.cancel_here && !outer_cancel && st != tbb::complete) s.fail("c01.status", "task_group::wait returned " + std::to_string((int)st) + " without any cancellation");
        if (n.cancel_here && !outer_cancel && st != tbb::canceled) s.fail("c01.status", "task_group::wait returned " + std::to_string((int)st) + " although a task of the group called cancel()");
        break;
    }
    case SPAWNER: {
        // a task that submits tasks to its own group and does not wait for them
        for (int c : n.kids) g->run(UnitFn(&s, c, g));
        break;
    }
    case PFOR: {
        int cnt = (int)n.kids.size();
        auto body = [&s, &n, g](const tbb::blocked_range<int>& r) { for (int i = r.begin(); i != r.end(); ++i) run_node(s, n.kids[i], g); };
        tbb::blocked_range<int> range(0, cnt, n.grain);
        int slot = -1;
        switch (n.part) {
        case 0: tbb::parallel_for(range, body, tbb::simple_partitioner()); break;
        case 1: tbb::parallel_for(range, body, tbb::auto_partitioner()); break;
        case 2: tbb::parallel_for(range, body, tbb::static_partitioner()); break;
        default:
            slot = g_pool->acquire(trng());
            if (slot >= 0) { tbb::parallel_for(range, body, g_pool->ap[slot]); g_pool->release(slot); }
            else tbb::parallel_for(range, body);
        }
        uint64_t ret = stamp();
        check_range(s, n.lo + 1, n.hi, ret, false, "parallel_for");
        break;
    }
    case INVOKE: {
        auto f = [&s, &n, g](int k) { return [&s, &n, g, k] { run_node(s, n.kids[k], g); }; };
        switch (n.kids.size()) {
        case 2: tbb::parallel_invoke(f(0), f(1)); break;
        case 3: tbb::parallel_invoke(f(0), f(1), f(2)); break;
        default: tbb::parallel_invoke(f(0), f(1), f(2), f(3)); break;
        }
        uint64_t ret = stamp();
        check_range(s, n.lo + 1, n.hi, ret, false, "parallel_invoke");
        break;
    }
    case EXEC: {
        s.B->execute([&] { for (int c : n.kids) run_node(s, c, nullptr); });
        uint64_t ret = stamp();
        check_range(s, n.lo + 1, n.hi, ret, false, "task_arena::execute");
        break;
    }
    case ISOLATE: {
        tbb::this_task_arena::isolate([&] { for (int c : n.kids) run_node(s, c, nullptr); });
        uint64_t ret = stamp();
        check_range(s, n.lo + 1, n.hi, ret, false, "isolate");
        break;
    }
    case ISO2: {
        // Work of an outer group is submitted from inside a nested isolated region and not waited for there; an inner group is
        // submitted and waited for in the enclosing region. The owner's pool then holds tasks of two isolation tags out of order:
        // while it waits for the inner group it has to skip the outer group's tasks (the "tasks omitted" paths of the ready pool).
        tbb::task_group tgB;
        size_t split = (size_t)n.split;
        tbb::this_task_arena::isolate([&] {
            tbb::task_group tgA;
            size_t ia = 0, ib = split;
            auto subA = [&] { tgA.run(UnitFn(&s, n.kids[ia++], &tgA)); };
            auto subB = [&] { int c = n.kids[ib++]; tbb::this_task_arena::isolate([&] { tgB.run(UnitFn(&s, c, &tgB)); }); };
            for (int h : n.how) { if (h == 0 && ia < split) subA(); else if (h != 0 && ib < n.kids.size()) subB(); }
            while (ia < split) subA();
            while (ib < n.kids.size()) subB();
            tgA.wait();
            uint64_t retA = stamp();
            if (split > 0) check_range(s, n.kids[0], split < n.kids.size() ? n.kids[split] : n.hi, retA, false, "task_group::wait inside isolate (other isolation's tasks in the pool)");
        });
        tgB.wait();
        uint64_t ret = stamp();
        check_range(s, n.lo + 1, n.hi, ret, false, "task_group::wait after isolate-split");
        break;
    }
    case ENQ_FF: break; // body of a detached unit is a leaf
    }
    u.payload = (long)(id * 2654435761u + 17);
    u.exit_seq.store(stamp(), std::memory_order_relaxed);
    if (n.detached) s.detached_left.fetch_sub(1, std::memory_order_release);
    progress();
}


// ---------------------------------------------------------------------------------------------- generator
struct Gen {
    Rng& r; Scen& s; int budget; int maxdepth; bool allow_cancel;
    // no_enq: below task_arena::execute(other arena) or isolate the waiting thread cannot run work enqueued into the
    // main arena itself, so a group there must not depend on it (that would be a deadlock made by the harness)
    int make(int depth, bool in_group, bool leaf_only, bool no_enq = false) {
        int id = (int)s.nodes.size();
        s.nodes.emplace_back();
        { Node& n = s.nodes[id]; n.id = id; n.lo = id; n.work = r.chance(1, 3) ? (int)r.below(2500) : 0; }
        budget--;
        Kind k = LEAF;
        if (!leaf_only && depth < maxdepth && budget > 2) {
            unsigned x = (unsigned)r.below(100);
            if (x < 27) k = LEAF; else if (x < 52) k = GROUP; else if (x < 60 && in_group) k = SPAWNER; else if (x < 77) k = PFOR;
            else if (x < 85) k = INVOKE; else if (x < 90) k = EXEC; else if (x < 94) k = ISOLATE;
            // isolate-split only where the current isolation is certainly "none" (not below isolate / execute / another split): its outer
            // wait must be able to take the tasks tagged with the inner region, otherwise a one-slot arena would deadlock by construction
            else if (!no_enq) k = ISO2; else k = LEAF;
        }
        s.nodes[id].kind = k;
        std::vector<int> kids, how;
        switch (k) {
        case GROUP: {
            int f = 1 + (int)r.below(6); bool big = r.chance(1, 40);
            if (big) f = 70 + (int)r.below(230);          // forces ready-deque growth/relocation while thieves are active
            bool cancel = allow_cancel && !big && r.chance(1, 6);
            for (int i = 0; i < f && budget > 0; i++) {
                int h = (int)r.below(10); int hw = h < 5 ? RUN : h < 7 ? DEFER_RUN : h < 9 ? (no_enq ? RUN : ENQ_H) : RUN;
                if (i == f - 1 && r.chance(1, 3)) hw = RUN_AND_WAIT;
                bool ff = !big && r.chance(1, 25);
                int c;
                if (ff) { c = make(depth + 1, true, true, no_enq); s.nodes[c].kind = ENQ_FF; s.nodes[c].detached = true; hw = -1; }
                else c = make(depth + 1, true, big || hw == ENQ_H, no_enq);
                kids.push_back(c); how.push_back(hw);
            }
            if (cancel && !kids.empty()) { s.nodes[id].cancel_here = true; s.any_cancel = true; }
            break;
        }
        case SPAWNER: { int f = 1 + (int)r.below(5); if (r.chance(1, 30)) f = 70 + (int)r.below(150); for (int i = 0; i < f && budget > 0; i++) kids.push_back(make(depth + 1, true, f > 10, no_enq)); break; }
        case PFOR: {
            int f = 1 + (int)r.below(r.chance(1, 4) ? 64 : 12);
            for (int i = 0; i < f && budget > 0; i++) kids.push_back(make(depth + 1, false, r.chance(3, 4), no_enq));
            s.nodes[id].part = (int)r.below(4); s.nodes[id].grain = 1 + (int)r.below(3);
            break;
        }
        case INVOKE: { int f = 2 + (int)r.below(3); for (int i = 0; i < f; i++) kids.push_back(make(depth + 1, false, budget <= 0, no_enq)); break; }
        case ISO2: {
            int fa = (int)r.below(4), fb = 1 + (int)r.below(3);
            for (int i = 0; i < fa; i++) kids.push_back(make(depth + 1, true, r.chance(3, 4), true));
            s.nodes[id].split = (int)kids.size();
            for (int i = 0; i < fb; i++) kids.push_back(make(depth + 1, true, r.chance(3, 4), true));
            for (size_t i = 0; i < kids.size(); i++) how.push_back((int)r.below(2));     // submission order: 0 = next inner, 1 = next outer
            break;
        }
        case EXEC: case ISOLATE: { int f = 1 + (int)r.below(2); for (int i = 0; i < f; i++) kids.push_back(make(depth + 1, false, budget <= 0, true)); break; }
        default: break;
        }
        Node& n = s.nodes[id];
        n.kids = kids; n.how = how; n.hi = (int)s.nodes.size();
        return id;
    }
};

// GROUP kids flagged how==-1 are fire-and-forget enqueues; handled in a wrapper because run_node's GROUP
// case only knows the four covered ways.
static void submit_detached(Scen& s, int c) {
    s.detached_left.fetch_add(1, std::memory_order_relaxed);
    s.u[c].submitted.fetch_add(1, std::memory_order_relaxed);
    Scen* sp = &s;
    s.A->enqueue([sp, c] { run_node(*sp, c, nullptr); });
}

int main(int argc, char** argv) {
    Args a = standard_init(argc, argv, "c01");
    Result& R = result();
    long cases = a.num("cases", 2000);
    g_light = (R.variant == "tsan") || a.has("light");
    int maxdrivers = (int)a.num("drivers", 4);
    bool allow_cancel = a.num("cancel", 1) != 0;
    bool hot = a.num("hot", 1) != 0;
    int fixed_conc = (int)a.num("conc", 0);
    std::vector<int> ids = { 1, 2, 3, 4, 5, 6, 7, 8, 9, 10, 20, 21, 22, 40, 41, 42, 43, 58, 70, 72, 73 };
    Rng top(mix(R.seed, 0xC01));
    tbb::global_control gc(tbb::global_control::max_allowed_parallelism, 16);
    g_pool = new PartPool();

    WatchdogCfg wc;
    std::atomic<Scen*> current[8]; for (auto& c : current) c.store(nullptr);
    watchdog_start(wc, [&](const HangInfo& hi) {
        std::string key = hi.quiescent ? "c01.hang.quiescent" : hi.spin_stall ? "c01.hang.spin-stall" : "";
        std::string d = "no progress for " + std::to_string(hi.stalled_for) + "s; threads: " + hi.threads + "\n" + rings_dump();
        Scen* s = current[0].load();
        if (key.empty()) { R.inconclusive++; fprintf(stderr, "[c01] watchdog: inconclusive stall\n%s\n", d.c_str()); R.finish_and_exit(4); }
        R.violation(key, d, s ? s->describe() : "{}");
        R.finish_and_exit(3);
    });

    long done = 0;
    while (done < cases) {
        // one batch = one pair of arenas
        int conc = fixed_conc ? fixed_conc : (int)top.pick(std::vector<int>{ 1, 2, 2, 3, 4, 4, 8, 16 });
        int reserved = conc > 1 ? (int)top.below(2) : (top.chance(1, 2) ? 1 : 0);
        int bconc = 1 + (int)top.below(3);
        // arenas live for the whole process and are re-used (arena churn belongs to C16, and a known teardown accounting
        // defect recorded there must not end this check's processes): one arena per shape, created on first use
        static std::map<std::pair<int, int>, std::unique_ptr<tbb::task_arena>> arena_pool;
        auto get_arena = [&](int c, int r) -> tbb::task_arena& { auto& p = arena_pool[{ c, r }]; if (!p) { p.reset(new tbb::task_arena(c % 100, r)); p->initialize(); } return *p; };
        tbb::task_arena& A = get_arena(conc, reserved);
        tbb::task_arena& B = get_arena(bconc + 100, (int)top.below(2));     // +100: kept apart from the main arenas of the same size
        tbb::task_arena& C = get_arena(3 + 200, 0);
        std::unique_ptr<Keeper> keeper;
        bool can_keep = conc > reserved || conc == 1;   // an arena whose slots are all reserved has no worker to run enqueued work
        if (hot && can_keep && !(conc == 1 && reserved == 1)) keeper.reset(new Keeper(A, 4, 40));
        int drivers = 1 + (int)top.below(maxdrivers);
        long batch = std::min<long>(cases - done, 40 + (long)top.below(80));
        std::atomic<long> next{0};
        std::vector<std::thread> th;
        uint64_t bseed = top.next();
        for (int d = 0; d < drivers; d++) th.emplace_back([&, d] {
            Rng r(mix(bseed, d));
            for (;;) {
                long k = next.fetch_add(1); if (k >= batch) break;
                Scen s; s.seed = mix(bseed, 1000 + k); s.A = &A; s.B = &B; s.C = &C; s.arena_conc = conc; s.drivers = drivers;
                Rng sr(s.seed);
                Gen g{ sr, s, 1 + (int)sr.below(sr.chance(1, 5) ? 200 : 40), 1 + (int)sr.below(5), allow_cancel };
                // root is always a GROUP-like sequence: make() may return a leaf; wrap so there is something to wait for
                int root = g.make(0, false, false);
                s.nunits = (int)s.nodes.size();
                s.u.reset(new Unit[s.nunits]);
                if (d == 0) current[0].store(&s);
                if (d == 0) perturb_random(r, ids);
                bool via_execute = r.chance(2, 3);
                auto run_root = [&] { run_node(s, root, nullptr); };
                // GROUP case needs access to detached submission: patch by pre-submitting detached kids of every group lazily
                if (via_execute) A.execute(run_root); else { tbb::task_group tg; tg.run_and_wait(run_root); }
                uint64_t ret = stamp();
                check_range(s, 0, s.nunits, ret, false, via_execute ? "task_arena::execute(root)" : "run_and_wait(root)");
                // detached units: nobody waits inside TBB; they must run anyway (bounded wait + watchdog)
                while (s.detached_left.load(std::memory_order_acquire) > 0) sched_yield();
                for (int i = 0; i < s.nunits; i++) if (s.nodes[i].detached && s.u[i].submitted.load() && s.u[i].ran.load() != 1)
                    s.fail("c01.enqueued-unit-count", "detached unit " + std::to_string(i) + " ran " + std::to_string(s.u[i].ran.load()) + " times");
                // signature: tree shape x which thread ran which unit (normalised)
                uint64_t h = mix(s.nunits, conc); std::map<int, int> norm; int distinct = 0;
                for (int i = 0; i < s.nunits; i++) { int t = s.u[i].thread.load(); if (t < 0) continue; auto it = norm.find(t); if (it == norm.end()) it = norm.emplace(t, distinct++).first; h = mix(h, (uint64_t)s.nodes[i].kind * 64 + it->second); }
                R.scenarios++;
                R.stat("units", s.nunits);
                { long iso2 = 0, omitted_waits = 0; for (auto& nd : s.nodes) if (nd.kind == ISO2) { iso2++; if (nd.split > 0) omitted_waits++; } if (iso2) { R.stat("isolate_split_constructs", iso2); R.stat("isolate_split_inner_waits_with_foreign_tasks_in_pool", omitted_waits); } }
                if (distinct >= 2) { R.nontrivial++; R.signature(h); }
                if (s.any_cancel) R.stat("scenarios_with_cancel");
                if (s.fails.load()) {
                    std::string key = s.fail_first.substr(0, s.fail_first.find('|')), det = s.fail_first.substr(s.fail_first.find('|') + 1);
                    R.violation(key, det + " (" + std::to_string(s.fails.load()) + " failed checks)\n" + rings_dump(8), s.describe());
                } else if (R.want_sample() && distinct >= 2 && s.nunits >= 6) {
                    Json j; j.obj(); j.kv("units", s.nunits); j.kv("threads_participating", distinct); j.kv("arena_concurrency", conc); j.kv("drivers", drivers);
                    j.key("unit_kind_thread").arr(); for (int i = 0; i < std::min(s.nunits, 40); i++) { j.arr(); j.val(kind_name[s.nodes[i].kind]); j.val(norm.count(s.u[i].thread.load()) ? norm[s.u[i].thread.load()] : -1); j.end_arr(); } j.end_arr();
                    j.end_obj(); R.sample(j.s);
                }
                if (d == 0) current[0].store(nullptr);
                progress();
            }
        });
        for (auto& t : th) t.join();
        done += batch;
        keeper.reset();
        perturb().clear();
    }
    watchdog_stop();
    R.stat("hook_delays", (long long)perturb().delays.load());
    R.finish_and_exit(0);     // arenas and workers are still alive: leave without static destructors
}
