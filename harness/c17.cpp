// C17: tbbmalloc blocks are disjoint, aligned, big enough, and keep their contents.
//
// Scenario ("round") = 2-16 persistent worker threads (plus short-lived threads they spawn) each running a random script of
// scalable_malloc / calloc / realloc / aligned_malloc / aligned_realloc / posix_memalign / scalable_allocator<T> / free /
// msize calls with sizes drawn from one profile (tiny, segregated, fitting, one size class for everybody, the class-boundary
// table, large, large-bin steps, everything incl. >= 64 MB) and alignments 1..2^30 (and invalid / absurd arguments), handing
// blocks to other threads (ring, star, random) which free / realloc / keep them, threads exiting with live blocks, and
// CLEAN_ALL / CLEAN_THREAD_BUFFERS commands in between; soft heap limit and huge-size threshold are changed at quiescence.
// Blocks survive across rounds. Oracles (all harness side):
//   * shadow interval map over [p, p+msize) extents, 64 shards by 64 KB address granule, an extent is erased BEFORE free /
//     realloc is called: an overlap refutes disjointness and "handed out again only after the free call";
//   * alignment (requested, else 16, or 8 for requests <= 8), msize >= request, msize stable, calloc zero-filled (freed memory
//     is always dirty: every block is pattern-filled over its whole msize extent and scribbled before free), realloc keeps the
//     first min(old,new) bytes, failed realloc leaves the old block intact;
//   * the fill pattern (function of a unique block id and the byte offset) is verified at free, before realloc, by the
//     receiving thread and in sweeps: the allocator (or anybody else) wrote into a live block;
//   * slab objects never cover the 128-byte slab header nor leave their 16 KB slab (metadata overlap, white box);
//   * MALLOC_ASSERTs of the TBB_USE_DEBUG build, crashes, sanitizer reports are violations through the driver.
// tsan variant / --monitor 0: no shadow map (no monitor locks between operations); patterns stay (plain accesses).
#define VRT_IMPL
#include "vrt.h"
#include <oneapi/tbb/scalable_allocator.h>
#include <dlfcn.h>
#include <cerrno>
#include <memory>

using namespace vrt;

#if VRT_ASAN
// vrt's per-thread hook records are "never freed" by design; the records of exited threads would be reported at exit.
extern "C" const char* __lsan_default_suppressions() { return "leak:vrt::hook_thread\n"; }
#endif

#if VRT_TSAN
// libtbbmalloc.so calls mremap through its PLT and finds this definition first (see vrt::tsan_mremap for the reason).
static std::atomic<long> g_mremap_emulated{0};
extern "C" __attribute__((visibility("default"))) void* mremap(void* a, size_t ol, size_t nl, int fl, ...) {
    if (fl & MREMAP_FIXED) { errno = EINVAL; return MAP_FAILED; }   // tbbmalloc never asks for it
    g_mremap_emulated.fetch_add(1, std::memory_order_relaxed);
    return vrt::tsan_mremap(a, ol, nl, fl);
}
#endif

// ------------------------------------------------------------------------------------------------ configuration
static bool g_monitor = true;          // shadow map on
static bool g_light = false;           // tsan: no monitor locks, no peer sampling
static int g_max_align_log = 30;
static const int kWorkers = 16;
static const size_t kSlab = 16384, kSlabHdr = 128, kMaxSlabObj = 8128;
static const size_t kFull = 64 * 1024;          // extents up to this size are patterned completely
static const size_t kAbsurd = (size_t)1 << 47;  // no such block fits the user address space

static std::string g_scen_json = "{}";
static std::atomic<long> g_viol{0};
static void viol(const std::string& key, const std::string& detail) {
    long n = g_viol.fetch_add(1, std::memory_order_relaxed);
    if (n >= 60) return;
    result().violation(key, detail.substr(0, 1400), g_scen_json);
    if (n < 3) result().write();        // a broken heap usually crashes a little later: keep what was seen
}
static std::string hx(uintptr_t v) { char b[24]; snprintf(b, sizeof b, "0x%llx", (unsigned long long)v); return b; }

// ------------------------------------------------------------------------------------------------ blocks and patterns
enum Kind : uint8_t { K_MALLOC, K_CALLOC, K_REALLOC, K_MEMALIGN, K_CXX, K_ALIGNED, K_ALIGNED_REALLOC, K_NKINDS };
static const char* kind_name[] = { "scalable_malloc", "scalable_calloc", "scalable_realloc", "scalable_posix_memalign", "scalable_allocator<char>::allocate",
                                   "scalable_aligned_malloc", "scalable_aligned_realloc" };
static inline bool aligned_family(int k) { return k == K_ALIGNED || k == K_ALIGNED_REALLOC; }

struct Blk {
    unsigned char* p = nullptr; size_t ext = 0, req = 0, al = 0; uint64_t id = 0;
    uint32_t child_no = 0;       // != 0: allocated by a short-lived thread
    uint8_t kind = 0, owner = 0; // owner: worker slot, 200 = short-lived thread
    std::string str() const {
        return std::string(kind_name[kind]) + " p=" + hx((uintptr_t)p) + " msize=" + std::to_string(ext) + " req=" + std::to_string(req) + " align=" + std::to_string(al) +
               " id=" + hx(id) + " by=" + (child_no ? "short-lived#" + std::to_string(child_no) : "worker" + std::to_string(owner));
    }
};

static inline uint64_t pw(uint64_t id, size_t w) { uint64_t x = id * 0x9E3779B97F4A7C15ull + (uint64_t)w * 0xD1B54A32D192ED03ull; return x ^ (x >> 29); }
static inline uint8_t pb(uint64_t id, size_t off) { return (uint8_t)(pw(id, off >> 3) >> ((off & 7) * 8)); }
static void fill_range(unsigned char* p, uint64_t id, size_t from, size_t to) {
    size_t o = from;
    for (; o < to && (o & 7); o++) p[o] = pb(id, o);
    for (; o + 8 <= to; o += 8) { uint64_t v = pw(id, o >> 3); memcpy(p + o, &v, 8); }
    for (; o < to; o++) p[o] = pb(id, o);
}
static size_t check_range(const unsigned char* p, uint64_t id, size_t from, size_t to) {   // first damaged offset or SIZE_MAX
    size_t o = from;
    for (; o < to && (o & 7); o++) if (p[o] != pb(id, o)) return o;
    for (; o + 8 <= to; o += 8) { uint64_t v; memcpy(&v, p + o, 8); if (v != pw(id, o >> 3)) { for (size_t k = 0; k < 8; k++) if (p[o + k] != pb(id, o + k)) return o + k; } }
    for (; o < to; o++) if (p[o] != pb(id, o)) return o;
    return SIZE_MAX;
}
// the byte ranges of an extent that carry the pattern: everything up to 64 KB; beyond: first and last 4 KB + 96 sampled words
template <class F> static void for_ranges(uint64_t id, size_t ext, F f) {
    if (ext <= kFull) { f((size_t)0, ext); return; }
    f((size_t)0, (size_t)4096);
    size_t nslots = (ext - 8192) >> 3;
    for (unsigned k = 0; k < 96; k++) { size_t o = 4096 + (size_t)(pw(id ^ 0x5A5A5A5Aull, k) % nslots) * 8; f(o, o + 8); }
    f(ext - 4096, ext);
}
static void fill(const Blk& b) { for_ranges(b.id, b.ext, [&](size_t a, size_t z) { fill_range(b.p, b.id, a, z); }); }
static size_t check_upto(const Blk& b, size_t limit) {
    size_t bad = SIZE_MAX;
    for_ranges(b.id, b.ext, [&](size_t a, size_t z) { if (bad != SIZE_MAX || a >= limit) return; size_t r = check_range(b.p, b.id, a, z < limit ? z : limit); if (r != SIZE_MAX) bad = r; });
    return bad;
}
static size_t first_nonzero(const unsigned char* p, size_t n) {
    auto scan = [&](size_t a, size_t z) -> size_t { for (size_t o = a; o < z; o++) if (p[o]) return o; return SIZE_MAX; };
    if (n <= (1u << 20)) {
        size_t o = 0; for (; o + 8 <= n; o += 8) { uint64_t v; memcpy(&v, p + o, 8); if (v) return scan(o, o + 8); }
        return scan(o, n);
    }
    size_t r = scan(0, 4096); if (r != SIZE_MAX) return r;
    for (unsigned k = 0; k < 256; k++) { size_t o = 4096 + (size_t)(pw(n, k) % (n - 8192)); if (p[o]) return o; }
    return scan(n - 4096, n);
}

// ------------------------------------------------------------------------------------------------ shadow interval map
struct Piece { uintptr_t end; uint64_t id; size_t req; uint32_t child_no; uint8_t owner, kind; };
struct alignas(128) Shard { std::mutex m; std::map<uintptr_t, Piece> pieces; };
static Shard g_shard[64];
static const int kGran = 16;
static inline unsigned shard_of(uintptr_t granule) { return (unsigned)((granule * 0x9E3779B97F4A7C15ull) >> 58); }
static std::atomic<long> g_shadow_missing{0};

static void shadow_insert(const Blk& b, const char* how) {
    if (!g_monitor || !b.ext) return;
    uintptr_t s = (uintptr_t)b.p, e = s + b.ext;
    for (uintptr_t g = s >> kGran; g <= (e - 1) >> kGran; g++) {
        uintptr_t ps = std::max(s, g << kGran), pe = std::min(e, (g + 1) << kGran);
        Shard& sh = g_shard[shard_of(g)];
        bool clash = false; uintptr_t os = 0; Piece op{};
        {
            std::lock_guard<std::mutex> l(sh.m);
            auto it = sh.pieces.lower_bound(ps);
            if (it != sh.pieces.end() && it->first < pe) { clash = true; os = it->first; op = it->second; }
            else if (it != sh.pieces.begin()) { auto pr = std::prev(it); if (pr->second.end > ps) { clash = true; os = pr->first; op = pr->second; } }
            if (!clash) sh.pieces.emplace(ps, Piece{ pe, b.id, b.req, b.child_no, b.owner, b.kind });
        }
        if (clash) {
            viol("c17.overlap.live-block", std::string("block returned by ") + how + " [" + b.str() + "] overlaps a block that is still live (its free/realloc has not been called yet): " +
                 kind_name[op.kind] + " piece [" + hx(os) + "," + hx(op.end) + ") id=" + hx(op.id) + " req=" + std::to_string(op.req) + " by=" +
                 (op.child_no ? "short-lived#" + std::to_string(op.child_no) : "worker" + std::to_string(op.owner)));
            return;                     // the rest of this extent is not registered; erase tolerates that
        }
    }
}
static void shadow_erase(const Blk& b) {
    if (!g_monitor || !b.ext) return;
    uintptr_t s = (uintptr_t)b.p, e = s + b.ext;
    for (uintptr_t g = s >> kGran; g <= (e - 1) >> kGran; g++) {
        uintptr_t ps = std::max(s, g << kGran);
        Shard& sh = g_shard[shard_of(g)];
        std::lock_guard<std::mutex> l(sh.m);
        auto it = sh.pieces.find(ps);
        if (it != sh.pieces.end() && it->second.id == b.id) sh.pieces.erase(it);
        else g_shadow_missing.fetch_add(1, std::memory_order_relaxed);      // only possible after an overlap was reported
    }
}
static size_t npieces(const Blk& b) { return b.ext ? ((((uintptr_t)b.p + b.ext - 1) >> kGran) - ((uintptr_t)b.p >> kGran)) + 1 : 0; }   // posix_memalign(big alignment, 0) legally has msize 0
static size_t shadow_pieces() { size_t n = 0; for (auto& sh : g_shard) { std::lock_guard<std::mutex> l(sh.m); n += sh.pieces.size(); } return n; }

// evidence only (never a verdict): who freed an address last, to count re-use after a foreign free
static std::atomic<uint64_t> g_hist[1 << 17];
static inline std::atomic<uint64_t>& hist_slot(uintptr_t a) { return g_hist[(((uint64_t)a >> 3) * 0x9E3779B97F4A7C15ull) >> 47]; }

// short-lived threads that have been joined (their TLS destructors have run)
static std::atomic<uint32_t> g_child_joined[4096];
static std::atomic<uint32_t> g_child_seq{0};

// ------------------------------------------------------------------------------------------------ scenario
enum Profile { P_TINY, P_SEG, P_FIT, P_SMALL, P_ONECLASS, P_TABLE, P_LARGE, P_LARGEBIN, P_ALL, P_NPROF };
static const char* prof_name[] = { "tiny(0-64)", "segregated(65-1024)", "fitting(1025-8128)", "small-mix", "one-size-class", "class-boundary-table", "large(8K-512K)", "large-bin-steps", "everything" };
enum Topo { T_RANDOM, T_RING, T_STAR, T_NONE, T_NTOPO };
static const char* topo_name[] = { "random-inbox", "ring", "one-producer", "no-hand-off" };

struct Scen {
    uint64_t seed = 0; int nthreads = 2, nops = 300, profile = 0, topo = 0; bool drain = false, spawn = true;
    size_t one_size = 64; int w_alloc = 4500, w_free = 2500, w_realloc = 1000, w_hand = 1200, w_cmd = 6, w_sweep = 150, w_spawn = 30, w_extreme = 40, w_inbox = 800;   // in 1/10000 of the operations (roughly)
    long soft_limit = 0, huge_thr = -1;
    std::string json() const {
        Json j; j.obj(); j.kv("scn_seed", (unsigned long long)seed); j.kv("threads", nthreads); j.kv("ops_per_thread", nops); j.kv("profile", prof_name[profile]); j.kv("hand_off", topo_name[topo]);
        if (profile == P_ONECLASS) j.kv("size", (unsigned long long)one_size);
        j.kv("drain_at_end", drain); j.kv("short_lived_threads", spawn); j.kv("soft_heap_limit", (long long)soft_limit); j.kv("huge_size_threshold", (long long)huge_thr);
        j.kv("replay", "c17 --scn " + std::to_string(seed) + " --cases 50   (same parameters; interleaving and carried-over heap state differ)");
        j.end_obj(); return j.s;
    }
};

static std::vector<size_t> g_table;           // class boundaries and their neighbours
static std::atomic<size_t> g_table_cursor{0}, g_align_cursor{0};
static void build_table() {
    std::vector<size_t> cls;
    for (size_t c = 8; c <= 64; c += 8) cls.push_back(c);
    for (size_t base = 64; base < 1024; base *= 2) for (int i = 1; i <= 4; i++) cls.push_back(base + base / 4 * i);   // 80..1024
    for (size_t c : { 1792, 2688, 4032, 5376, 8128, 8192, 16384 - 128, 16384, 32768, 65536 }) cls.push_back(c);
    auto& t = g_table;
    t.push_back(0); t.push_back(1); t.push_back(2);
    for (size_t c : cls) { t.push_back(c - 1); t.push_back(c); t.push_back(c + 1); }
    // large-object cache: 8 KB bins up to 8 MB, then huge bins; the request grows by the headers (and 64 bytes of alignment)
    for (size_t k : { 2, 3, 4, 5, 8, 16, 17, 64, 128, 256, 512, 1023, 1024 })
        for (size_t d : { 0, 1, 63, 64, 65, 79, 80, 81, 127, 128, 129, 143, 144, 145, 191, 192, 193 }) t.push_back(k * 8192 - d);
    for (size_t k : { 2, 16, 1024 }) { t.push_back(k * 8192 + 1); t.push_back(k * 8192 + 64); }
    for (size_t m : { 8, 12, 16, 24, 32, 48, 64 }) for (size_t d : { 0, 1, 144, 192, 4096 }) t.push_back((m << 20) - d);
    t.push_back((64u << 20) + 1); t.push_back((64u << 20) + 8192); t.push_back(100u << 20);
}

// budget (harness side): per-thread bytes of ordinary blocks, process-wide bytes of blocks > 1 MB
static std::atomic<long> g_big_bytes{0};
static long g_big_cap = 256L << 20;
static const size_t kThreadCap = 10u << 20;
static const size_t kThreadBlocks = 5000;

struct TStats {
    long ops = 0, allocs = 0, frees = 0, foreign_frees = 0, frees_after_exit = 0, reallocs = 0, realloc_inplace = 0, realloc_moved = 0, foreign_reallocs = 0, handoffs = 0, cmds = 0,
         sweeps = 0, swept = 0, spawns = 0, extreme = 0, nulls = 0, unexpected_null = 0, reuse_by_owner = 0, reuse_by_third = 0, peers_sampled = 0, peers_in_alloc = 0,
         calloc_checked = 0, aligned_allocs = 0, big_align = 0, huge = 0, left_by_exited = 0, table_sizes = 0, invalid_args = 0, received = 0;
    uint64_t digest = 0, t_start = 0, t_end = 0;
    std::map<uint32_t, long> cls;         // msize of slab objects -> count; large: 1<<20 | bucket
    void add(const TStats& o) {
        ops += o.ops; allocs += o.allocs; frees += o.frees; foreign_frees += o.foreign_frees; frees_after_exit += o.frees_after_exit; reallocs += o.reallocs; realloc_inplace += o.realloc_inplace;
        realloc_moved += o.realloc_moved; foreign_reallocs += o.foreign_reallocs; handoffs += o.handoffs; cmds += o.cmds; sweeps += o.sweeps; swept += o.swept; spawns += o.spawns; extreme += o.extreme;
        nulls += o.nulls; unexpected_null += o.unexpected_null; reuse_by_owner += o.reuse_by_owner; reuse_by_third += o.reuse_by_third; peers_sampled += o.peers_sampled; peers_in_alloc += o.peers_in_alloc;
        calloc_checked += o.calloc_checked; aligned_allocs += o.aligned_allocs; big_align += o.big_align; huge += o.huge; left_by_exited += o.left_by_exited; table_sizes += o.table_sizes;
        invalid_args += o.invalid_args; received += o.received; digest = mix(digest, o.digest);
        for (auto& kv : o.cls) cls[kv.first] += kv.second;
    }
};

struct Inbox { std::mutex m; std::vector<Blk> v; };

struct Ctx {                        // one thread that calls the allocator (worker or short-lived)
    int slot = 0; uint32_t child_no = 0; uint8_t code = 0;
    uint64_t id_hi = 0, id_seq = 0;
    Rng r{1};
    std::vector<Blk> mine; size_t mine_bytes = 0;
    TStats st;
    std::atomic<int>* in_call = nullptr;
    const Scen* scen = nullptr;
    uint64_t next_id() { return id_hi | ++id_seq; }
};

struct ChildJob;
struct alignas(128) Worker {
    Ctx c; Inbox inbox; std::atomic<int> in_call{0};
    std::thread child; ChildJob* job = nullptr;
};
static Worker g_w[kWorkers];
static std::atomic<int> g_child_in_call{0};

struct CallMark {                   // hang predicate + peer sampling: which entry point a thread is inside
    std::atomic<int>* f;
    CallMark(Ctx& c, int what) : f(c.in_call) { if (f) f->store(what, std::memory_order_relaxed); }
    ~CallMark() { if (f) f->store(0, std::memory_order_relaxed); }
};

// ------------------------------------------------------------------------------------------------ size / alignment generators
static size_t gen_size(Ctx& c, int prof) {
    Rng& r = c.r; const Scen& s = *c.scen;
    switch (prof) {
    case P_TINY: return r.chance(1, 4) ? (size_t)r.pick(std::vector<int>{ 0, 1, 8, 16, 24, 64 }) : (size_t)r.below(65);
    case P_SEG: return 65 + (size_t)r.below(960);
    case P_FIT: return 1025 + (size_t)r.below(kMaxSlabObj - 1024);
    case P_SMALL: { unsigned x = (unsigned)r.below(100); return gen_size(c, x < 45 ? P_TINY : x < 80 ? P_SEG : P_FIT); }
    case P_ONECLASS: return s.one_size > 8 ? s.one_size - (size_t)r.below(8) : s.one_size;
    case P_TABLE: { c.st.table_sizes++; return g_table[g_table_cursor.fetch_add(1, std::memory_order_relaxed) % g_table.size()]; }
    case P_LARGE: { int e = 13 + (int)r.below(6); return ((size_t)1 << e) + (size_t)r.below((size_t)1 << e) + (e == 13 ? 1 : 0); }
    case P_LARGEBIN: {
        size_t k = 2 + (size_t)r.below(r.chance(1, 10) ? 1100 : 80);
        return k * 8192 - (size_t)r.pick(std::vector<int>{ 0, 1, 63, 64, 65, 80, 127, 128, 129, 144, 145, 192, 4096 });
    }
    default: {
        unsigned x = (unsigned)r.below(100);
        if (x < 50) return gen_size(c, P_SMALL);
        if (x < 65) return gen_size(c, P_TABLE);
        if (x < 85) return gen_size(c, P_LARGE);
        if (x < 97) return gen_size(c, P_LARGEBIN);
        return ((size_t)r.pick(std::vector<int>{ 8, 16, 32, 64, 64, 64, 65, 96 }) << 20) - (size_t)r.pick(std::vector<int>{ 0, 0, 1, 144, 4096, -1, -4096 });
    }
    }
}
static size_t gen_align(Ctx& c) {
    Rng& r = c.r; int k;
    if (r.chance(1, c.scen->profile == P_TABLE ? 4 : 40)) k = (int)(g_align_cursor.fetch_add(1, std::memory_order_relaxed) % 31);
    else { unsigned x = (unsigned)r.below(1000); k = x < 550 ? (int)r.below(8) : x < 900 ? 8 + (int)r.below(7) : x < 990 ? 15 + (int)r.below(6) : x < 997 ? 21 + (int)r.below(5) : 26 + (int)r.below(5); }
    if (k > g_max_align_log) k = g_max_align_log - (int)r.below(4);
    return (size_t)1 << k;
}
// big requests need a token from the process-wide budget; otherwise they shrink to something small
static size_t within_budget(Ctx& c, size_t sz, size_t al) {
    if (sz <= (1u << 20)) return sz;
    (void)al;
    if (g_big_bytes.load(std::memory_order_relaxed) + (long)sz > g_big_cap) return 1 + (size_t)c.r.below(4096);
    return sz;
}

// ------------------------------------------------------------------------------------------------ checked entry points
static void note_class(Ctx& c, const Blk& b) {
    if (b.al == 0 && b.ext <= kMaxSlabObj) c.st.cls[(uint32_t)b.ext]++;
    else if (b.ext > kMaxSlabObj) { int lg = 63 - __builtin_clzll((unsigned long long)b.ext); c.st.cls[(1u << 20) | (uint32_t)(lg * 4 + ((b.ext >> (lg - 2)) & 3))]++; }
}
// everything that must hold for a block that was just handed out; registers it and fills it
static void adopt_new(Ctx& c, Blk& b, const char* how, size_t need_al, bool fresh) {
    uintptr_t a = (uintptr_t)b.p;
    if (a & (need_al - 1)) viol("c17.align.misaligned", std::string(how) + " returned " + hx(a) + " for size " + std::to_string(b.req) + ", required alignment " + std::to_string(need_al));
    if (b.ext < b.req) viol("c17.size.msize-below-request", std::string(how) + ": scalable_msize(" + hx(a) + ") = " + std::to_string(b.ext) + " < requested " + std::to_string(b.req));
    if (b.ext < b.req || b.ext >= kAbsurd) { b.ext = std::min<size_t>(b.req, 64); }     // do not write beyond what is certainly ours
    if (fresh && b.al == 0 && !aligned_family(b.kind) && b.kind != K_MEMALIGN && b.req <= kMaxSlabObj && b.ext <= kMaxSlabObj) {
        size_t off = a & (kSlab - 1);
        if (off < kSlabHdr || off + b.ext > kSlab)
            viol("c17.meta.slab-header-overlap", std::string(how) + " returned a small object [" + b.str() + "] at slab offset " + std::to_string(off) + " (slab header is 128 bytes, slab 16384)");
    }
    shadow_insert(b, how);
    if (fresh) {
        uint64_t h = hist_slot(a).load(std::memory_order_relaxed);
        if ((h >> 16) == ((uint64_t)a >> 3)) {
            unsigned ow = (h >> 8) & 0xff, fr = h & 0xff;
            if (ow != fr) { if (ow == c.code) c.st.reuse_by_owner++; else c.st.reuse_by_third++; }
        }
        note_class(c, b);
    }
    fill(b);
    if (b.ext > (1u << 20)) { g_big_bytes.fetch_add((long)b.ext, std::memory_order_relaxed); c.st.huge += b.ext >= (64u << 20); }
    else c.mine_bytes += b.ext;
}
static void forget(Ctx& c, const Blk& b) {
    if (b.ext > (1u << 20)) g_big_bytes.fetch_sub((long)b.ext, std::memory_order_relaxed); else c.mine_bytes -= std::min(c.mine_bytes, b.ext);
}

static bool do_alloc(Ctx& c, int kind, size_t sz, size_t al, Blk& out) {
    void* p = nullptr; const char* how = kind_name[kind];
    size_t need = sz <= 8 ? 8 : 16;
    switch (kind) {
    case K_MALLOC: { CallMark m(c, 1); p = scalable_malloc(sz); } break;
    case K_REALLOC: { CallMark m(c, 2); p = scalable_realloc(nullptr, sz); } break;
    case K_CALLOC: {
        size_t nobj = 1, each = sz;
        if (sz && c.r.chance(2, 3)) { for (size_t d : { (size_t)8, (size_t)3, (size_t)2, (size_t)16, sz }) if (sz % d == 0 && c.r.chance(1, 2)) { nobj = sz / d; each = d; break; } }
        if (sz == 0 && c.r.chance(1, 2)) { nobj = c.r.below(3); each = nobj ? 0 : 5; }
        { CallMark m(c, 3); p = scalable_calloc(nobj, each); }
        if (p) { size_t nz = first_nonzero((unsigned char*)p, sz); c.st.calloc_checked++; if (nz != SIZE_MAX) viol("c17.calloc.nonzero", "scalable_calloc(" + std::to_string(nobj) + "," + std::to_string(each) + ") = " + hx((uintptr_t)p) + " has byte " + std::to_string(((unsigned char*)p)[nz]) + " at offset " + std::to_string(nz)); }
    } break;
    case K_CXX: { CallMark m(c, 4); try { p = tbb::scalable_allocator<char>().allocate(sz); } catch (std::bad_alloc&) { p = nullptr; } } break;
    case K_MEMALIGN: {
        if (al < sizeof(void*)) al = sizeof(void*);
        void* q = (void*)(uintptr_t)0x5a5a; int rc; { CallMark m(c, 5); rc = scalable_posix_memalign(&q, al, sz); }
        if (rc == 0) p = q; else if (q != (void*)(uintptr_t)0x5a5a) viol("c17.align.memalign-wrote-result-on-failure", "scalable_posix_memalign returned " + std::to_string(rc) + " but changed *memptr");
        need = al;
    } break;
    case K_ALIGNED: { if (!sz) sz = 1; CallMark m(c, 6); p = scalable_aligned_malloc(sz, al); need = al; } break;
    case K_ALIGNED_REALLOC: { if (!sz) sz = 1; CallMark m(c, 7); p = scalable_aligned_realloc(nullptr, sz, al); need = al; } break;
    }
    if (!p) { c.st.nulls++; if (sz <= (128u << 20) && al <= ((size_t)1 << 30)) c.st.unexpected_null++; return false; }
    Blk b; b.p = (unsigned char*)p; b.req = sz; b.al = (kind == K_MEMALIGN || aligned_family(kind)) ? al : 0; b.kind = (uint8_t)kind; b.owner = c.code; b.child_no = c.child_no; b.id = c.next_id();
    { CallMark m(c, 8); b.ext = scalable_msize(p); }
    c.st.allocs++; if (b.al) { c.st.aligned_allocs++; if (b.al >= (1u << 20)) c.st.big_align++; }
    adopt_new(c, b, how, need, true);
    out = b; return true;
}

static void verify_live(Ctx& c, const Blk& b, const char* where, bool msize_too) {
    if (msize_too) {
        size_t ms; { CallMark m(c, 8); ms = scalable_msize(b.p); }
        if (ms != b.ext && !(b.ext < b.req)) viol("c17.size.msize-changed", std::string("scalable_msize changed from ") + std::to_string(b.ext) + " to " + std::to_string(ms) + " (" + where + ") for [" + b.str() + "]");
    }
    size_t bad = check_upto(b, b.ext);
    if (bad != SIZE_MAX)
        viol("c17.content.damaged-live-block", std::string("fill pattern of a live block damaged (") + where + ", checked by " + (c.child_no ? "short-lived#" + std::to_string(c.child_no) : "worker" + std::to_string(c.slot)) +
             ") at offset " + std::to_string(bad) + ": found " + std::to_string(b.p[bad]) + " expected " + std::to_string(pb(b.id, bad)) + " [" + b.str() + "]");
}

static void do_free(Ctx& c, const Blk& b, const char* where) {
    verify_live(c, b, where, true);
    memset(b.p, 0xDD, std::min<size_t>(b.ext, 4096)); if (b.ext > 4096) memset(b.p + b.ext - 256, 0xDD, 256);      // freed memory is dirty
    shadow_erase(b);                                   // BEFORE the call: from here on the allocator may hand the range out again
    forget(c, b);
    bool foreign = b.child_no != c.child_no || b.owner != c.code;
    hist_slot((uintptr_t)b.p).store((((uint64_t)(uintptr_t)b.p >> 3) << 16) | ((uint64_t)b.owner << 8) | c.code, std::memory_order_relaxed);
    c.st.frees++;
    if (foreign) {
        c.st.foreign_frees++; c.st.digest = mix(c.st.digest, ((uint64_t)b.owner << 32) | (b.ext & 0xffffffffu));
        if (b.child_no && g_child_joined[b.child_no & 4095].load(std::memory_order_relaxed) == b.child_no) c.st.frees_after_exit++;
    }
    unsigned v = (unsigned)c.r.below(16);
    if (b.kind == K_CXX) { CallMark m(c, 9); tbb::scalable_allocator<char>().deallocate((char*)b.p, b.req); }
    else if (aligned_family(b.kind)) {
        if (v == 0) { CallMark m(c, 10); void* q = scalable_aligned_realloc(b.p, 0, b.al); if (q) viol("c17.realloc.size0-returned-block", "scalable_aligned_realloc(p,0,a) returned non-null"); }
        else { CallMark m(c, 11); scalable_aligned_free(b.p); }
    } else {
        if (v == 0) { CallMark m(c, 12); void* q = scalable_realloc(b.p, 0); if (q) viol("c17.realloc.size0-returned-block", "scalable_realloc(p,0) returned non-null"); }
        else { CallMark m(c, 13); scalable_free(b.p); }
    }
}

// returns false if the block is gone (never: a failed realloc keeps it)
static void do_realloc(Ctx& c, Blk& b, size_t ns, size_t nal) {
    if (b.kind == K_CXX) return;
    if (!ns) ns = 1;
    bool af = aligned_family(b.kind);
    verify_live(c, b, "before realloc", false);
    size_t keep = std::min(b.req, ns);
    if (b.ext > kFull && keep > 512) fill_range(b.p, b.id, keep - 256, keep);      // make the pattern dense where the copy ends
    shadow_erase(b); forget(c, b);
    bool foreign = b.child_no != c.child_no || b.owner != c.code;
    void* q;
    if (af) { CallMark m(c, 14); q = scalable_aligned_realloc(b.p, ns, nal); } else { CallMark m(c, 15); q = scalable_realloc(b.p, ns); }
    c.st.reallocs++;
    if (!q) {
        c.st.nulls++; if (ns <= (128u << 20)) c.st.unexpected_null++;
        size_t bad = check_upto(b, b.ext);
        if (bad != SIZE_MAX) viol("c17.realloc.failed-realloc-damaged-old-block", "realloc to " + std::to_string(ns) + " failed and the old block is damaged at offset " + std::to_string(bad) + " [" + b.str() + "]");
        shadow_insert(b, "failed realloc (old block)"); if (b.ext > (1u << 20)) g_big_bytes.fetch_add((long)b.ext, std::memory_order_relaxed); else c.mine_bytes += b.ext;
        return;
    }
    Blk old = b; old.p = (unsigned char*)q;                 // same pattern id, new place
    size_t bad = SIZE_MAX;
    for_ranges(old.id, old.ext, [&](size_t a, size_t z) { if (bad != SIZE_MAX || a >= keep) return; size_t r = check_range(old.p, old.id, a, z < keep ? z : keep); if (r != SIZE_MAX) bad = r; });
    if (bad == SIZE_MAX && b.ext > kFull && keep > 512) bad = check_range(old.p, old.id, keep - 256, keep);
    if (bad != SIZE_MAX)
        viol("c17.realloc.prefix-lost", std::string(af ? "scalable_aligned_realloc" : "scalable_realloc") + " from req " + std::to_string(b.req) + " (msize " + std::to_string(b.ext) + ") to " + std::to_string(ns) +
             (q == b.p ? " in place" : " moved") + ": byte " + std::to_string(bad) + " of the first " + std::to_string(keep) + " changed (found " + std::to_string(old.p[bad]) + " expected " + std::to_string(pb(old.id, bad)) + ") old [" + b.str() + "] new p=" + hx((uintptr_t)q));
    if (q == b.p) c.st.realloc_inplace++; else { c.st.realloc_moved++; if (foreign) c.st.foreign_reallocs++; }
    Blk nb; nb.p = (unsigned char*)q; nb.req = ns; nb.al = af ? nal : 0; nb.kind = af ? K_ALIGNED_REALLOC : K_REALLOC; nb.id = c.next_id();
    if (q == b.p) { nb.owner = b.owner; nb.child_no = b.child_no; } else { nb.owner = c.code; nb.child_no = c.child_no; }
    { CallMark m(c, 8); nb.ext = scalable_msize(q); }
    adopt_new(c, nb, af ? "scalable_aligned_realloc" : "scalable_realloc", af ? nal : (ns <= 8 && q != b.p ? 8 : (q == b.p ? 8 : 16)), q != b.p);
    b = nb;
}

// invalid and absurd arguments: nothing may be handed out
static void do_extreme(Ctx& c) {
    Rng& r = c.r; c.st.extreme++;
    static const size_t absurd[] = { (size_t)1 << 47, (size_t)1 << 48, (size_t)1 << 62, SIZE_MAX / 2, SIZE_MAX / 2 + 1, SIZE_MAX - 8192, SIZE_MAX - 4096, SIZE_MAX - 1024, SIZE_MAX - 128, SIZE_MAX - 64,
                                     SIZE_MAX - 63, SIZE_MAX - 16, SIZE_MAX - 8, SIZE_MAX - 1, SIZE_MAX };
    static const size_t badal[] = { 0, 3, 5, 6, 7, 12, 24, 48, 96, 100, 1000, 4097, ((size_t)1 << 20) + 1, ((size_t)1 << 30) - 1, SIZE_MAX };
    size_t big = absurd[r.below(sizeof absurd / sizeof *absurd)], ba = badal[r.below(sizeof badal / sizeof *badal)];
    size_t goodal = (size_t)1 << r.below(13);
    void* p = nullptr; std::string what;
    auto got = [&](void* q, const std::string& w, size_t req) {
        if (!q) return;
        size_t ms = scalable_msize(q);
        viol(ms < req ? "c17.size.msize-below-request" : "c17.size.absurd-request-succeeded", w + " returned " + hx((uintptr_t)q) + " with scalable_msize " + std::to_string(ms));
    };
    switch (r.below(9)) {
    case 0: { CallMark m(c, 1); p = scalable_malloc(big); } got(p, "scalable_malloc(" + std::to_string(big) + ")", big); break;
    case 1: { size_t n = (size_t)1 << (32 + r.below(31)), e = (size_t)1 << (32 + r.below(31)); if (r.chance(1, 3)) { n = big; e = 1 + r.below(3); } { CallMark m(c, 3); p = scalable_calloc(n, e); }
              got(p, "scalable_calloc(" + std::to_string(n) + "," + std::to_string(e) + ")", kAbsurd); } break;
    case 2: { CallMark m(c, 6); p = scalable_aligned_malloc(big, goodal); } got(p, "scalable_aligned_malloc(" + std::to_string(big) + "," + std::to_string(goodal) + ")", big); break;
    case 3: { void* q = nullptr; int rc; { CallMark m(c, 5); rc = scalable_posix_memalign(&q, std::max(goodal, sizeof(void*)), big); } if (rc == 0) got(q, "scalable_posix_memalign(" + std::to_string(big) + ")", big); } break;
    case 4: {   // invalid alignment
        c.st.invalid_args++; size_t sz = 1 + r.below(5000);
        { CallMark m(c, 6); p = scalable_aligned_malloc(sz, ba); }
        if (p) { viol("c17.align.invalid-alignment-accepted", "scalable_aligned_malloc(" + std::to_string(sz) + ", alignment " + std::to_string(ba) + ") returned " + hx((uintptr_t)p)); scalable_aligned_free(p); }
    } break;
    case 5: {
        c.st.invalid_args++; size_t sz = 1 + r.below(5000); void* q = nullptr; size_t a2 = r.chance(1, 2) ? ba : (size_t)r.pick(std::vector<int>{ 1, 2, 4 });
        int rc; { CallMark m(c, 5); rc = scalable_posix_memalign(&q, a2, sz); }
        if (rc == 0) { viol("c17.align.invalid-alignment-accepted", "scalable_posix_memalign(alignment " + std::to_string(a2) + ", size " + std::to_string(sz) + ") returned 0 and " + hx((uintptr_t)q)); scalable_free(q); }
    } break;
    default: {  // realloc of a live block to an absurd size / with an invalid alignment must fail and leave the block alone
        if (c.mine.empty()) break;
        Blk& b = c.mine[r.below(c.mine.size())];
        if (b.kind == K_CXX) break;
        bool af = aligned_family(b.kind); bool bad_al = af && r.chance(1, 2); if (bad_al) c.st.invalid_args++;
        void* q;
        if (af) { CallMark m(c, 14); q = scalable_aligned_realloc(b.p, bad_al ? 1 + r.below(5000) : big, bad_al ? ba : b.al); } else { CallMark m(c, 15); q = scalable_realloc(b.p, big); }
        if (q) { viol(bad_al ? "c17.align.invalid-alignment-accepted" : "c17.size.absurd-request-succeeded", std::string(af ? "scalable_aligned_realloc" : "scalable_realloc") + " of [" + b.str() + "] to an impossible size/alignment returned " + hx((uintptr_t)q)); break; }
        size_t bad = check_upto(b, b.ext);
        if (bad != SIZE_MAX) viol("c17.realloc.failed-realloc-damaged-old-block", "failed realloc damaged the old block at offset " + std::to_string(bad) + " [" + b.str() + "]");
    } break;
    }
}

// ------------------------------------------------------------------------------------------------ script
static void push_inbox(int target, const Blk& b) { Inbox& ib = g_w[target].inbox; std::lock_guard<std::mutex> l(ib.m); ib.v.push_back(b); }

static int pick_kind(Ctx& c) {
    unsigned x = (unsigned)c.r.below(100);
    return x < 40 ? K_MALLOC : x < 52 ? K_CALLOC : x < 58 ? K_REALLOC : x < 66 ? K_MEMALIGN : x < 72 ? K_CXX : x < 94 ? K_ALIGNED : K_ALIGNED_REALLOC;
}
static void one_alloc(Ctx& c) {
    int kind = pick_kind(c);
    size_t al = (kind == K_MEMALIGN || aligned_family(kind)) ? gen_align(c) : 0;
    size_t sz = within_budget(c, gen_size(c, c.scen->profile), al);
    Blk b; if (do_alloc(c, kind, sz, al, b)) c.mine.push_back(b);
}
static size_t realloc_size(Ctx& c, const Blk& b) {
    Rng& r = c.r; unsigned x = (unsigned)r.below(100); size_t ns;
    if (x < 50) ns = gen_size(c, c.scen->profile);
    else if (x < 75) { long d = r.range(-17, 17); ns = (long)b.req + d > 0 ? (size_t)((long)b.req + d) : 1; if (r.chance(1, 4)) ns = b.req * 2; else if (r.chance(1, 4)) ns = b.req / 2; else if (r.chance(1, 6)) ns = b.ext + r.below(2); }
    else ns = gen_size(c, P_TABLE);
    if (b.ext > (8u << 20) && ns > (1u << 20)) ns = r.chance(1, 2) ? b.req - std::min<size_t>(b.req - 1, r.below(200000)) : 1 + r.below(100000);   // do not copy tens of MB around
    return within_budget(c, ns ? ns : 1, 0);
}

struct ChildJob { Scen const* scen; uint64_t seed; uint32_t child_no; std::vector<Blk> given; std::vector<int> targets; TStats st; };

static void child_body(ChildJob* job) {
    Ctx c; c.slot = -1; c.child_no = job->child_no; c.code = 200; c.id_hi = ((uint64_t)(0x8000 + (job->child_no & 0x7fff))) << 40; c.r = Rng(job->seed); c.scen = job->scen; c.in_call = &g_child_in_call;
    Rng& r = c.r;
    int n = 10 + (int)r.below(r.chance(1, 4) ? 600 : 120);
    for (int i = 0; i < n; i++) { one_alloc(c); c.st.ops++; if (c.mine_bytes > kThreadCap / 2) break; }
    for (auto& b : job->given) { do_free(c, b, "free by a short-lived thread"); c.st.ops++; }
    job->given.clear();
    unsigned keep_pc = (unsigned)r.below(101);
    for (size_t i = 0; i < c.mine.size();) {
        if (r.below(100) >= keep_pc) { do_free(c, c.mine[i], "owner free"); c.mine[i] = c.mine.back(); c.mine.pop_back(); c.st.ops++; }
        else { if (r.chance(1, 10)) { do_realloc(c, c.mine[i], realloc_size(c, c.mine[i]), c.mine[i].al ? c.mine[i].al : 16); c.st.ops++; } i++; }
    }
    if (r.chance(1, 20)) { CallMark m(c, 16); scalable_allocation_command(r.chance(1, 2) ? TBBMALLOC_CLEAN_THREAD_BUFFERS : TBBMALLOC_CLEAN_ALL_BUFFERS, nullptr); c.st.cmds++; }
    for (auto& b : c.mine) { push_inbox(job->targets[r.below(job->targets.size())], b); c.st.left_by_exited++; }     // big blocks stay counted in g_big_bytes until freed
    c.mine.clear();
    job->st = c.st;
    progress();
}   // the thread ends here with live blocks in its slabs: tbbmalloc's thread-exit path orphans them

static void reap_child(Worker& w) {
    if (!w.child.joinable()) return;
    w.child.join();
    g_child_joined[w.job->child_no & 4095].store(w.job->child_no, std::memory_order_relaxed);
    w.c.st.add(w.job->st); w.c.st.spawns++;
    delete w.job; w.job = nullptr;
}

static void take_inbox(Worker& w, std::vector<Blk>& got, size_t max_n) {
    std::lock_guard<std::mutex> l(w.inbox.m);
    while (!w.inbox.v.empty() && got.size() < max_n) { got.push_back(w.inbox.v.back()); w.inbox.v.pop_back(); }
}
static void absorb_received(Ctx& c, const Blk& b) { if (b.ext > (1u << 20)) { /* already counted in g_big_bytes */ } else c.mine_bytes += b.ext; c.mine.push_back(b); }

static void run_script(Worker& w, const Scen& s, int t) {
    Ctx& c = w.c; Rng& r = c.r; c.scen = &s; c.r = Rng(mix(s.seed, 0x100 + t));
    c.st.t_start = now_ns();
    int wsum = s.w_alloc + s.w_free + s.w_realloc + s.w_hand + s.w_cmd + s.w_sweep + s.w_spawn + s.w_extreme + s.w_inbox;
    std::vector<Blk> got;
    for (int i = 0; i < s.nops; i++) {
        c.st.ops++;
        if ((i & 31) == 0) {
            progress();
            if (!g_light) { for (int k = 0; k < s.nthreads; k++) if (k != t) { c.st.peers_sampled++; if (g_w[k].in_call.load(std::memory_order_relaxed)) c.st.peers_in_alloc++; } }
        }
        int x = (int)r.below(wsum);
        bool over = c.mine_bytes > kThreadCap || c.mine.size() > kThreadBlocks;
        if (over && x < s.w_alloc) x = s.w_alloc;                       // turn allocations into frees while over budget
        if ((x -= s.w_alloc) < 0) { one_alloc(c); continue; }
        if ((x -= s.w_free) < 0) {
            if (c.mine.empty()) { one_alloc(c); continue; }
            size_t k = r.chance(1, 3) ? c.mine.size() - 1 : r.below(c.mine.size());
            Blk b = c.mine[k]; c.mine[k] = c.mine.back(); c.mine.pop_back(); do_free(c, b, "free by holder"); continue;
        }
        if ((x -= s.w_realloc) < 0) {
            if (c.mine.empty()) continue;
            Blk& b = c.mine[r.below(c.mine.size())];
            do_realloc(c, b, realloc_size(c, b), b.al && r.chance(3, 4) ? b.al : gen_align(c)); continue;
        }
        if ((x -= s.w_hand) < 0) {
            if (c.mine.empty() || s.topo == T_NONE || s.nthreads < 2) continue;
            if (s.topo == T_STAR && t != 0) continue;
            int target = s.topo == T_RING ? (t + 1) % s.nthreads : (t + 1 + (int)r.below(s.nthreads - 1)) % s.nthreads;
            int n = 1 + (r.chance(1, 4) ? (int)r.below(16) : 0);
            for (int k = 0; k < n && !c.mine.empty(); k++) { size_t j = r.below(c.mine.size()); Blk b = c.mine[j]; c.mine[j] = c.mine.back(); c.mine.pop_back(); if (b.ext <= (1u << 20)) c.mine_bytes -= std::min(c.mine_bytes, b.ext); push_inbox(target, b); c.st.handoffs++; }
            continue;
        }
        if ((x -= s.w_inbox) < 0) {
            got.clear(); take_inbox(w, got, 1 + r.below(r.chance(1, 3) ? 64 : 6));
            for (auto& b : got) {
                c.st.received++;
                unsigned y = (unsigned)r.below(100);
                if (y < 60) { if (b.ext <= (1u << 20)) c.mine_bytes += b.ext; do_free(c, b, "free by receiving thread"); }
                else if (y < 75 && b.kind != K_CXX) { verify_live(c, b, "received", true); absorb_received(c, b); Blk& mb = c.mine.back(); do_realloc(c, mb, realloc_size(c, mb), mb.al ? mb.al : 16); }
                else { verify_live(c, b, "received", true); absorb_received(c, b); }
            }
            continue;
        }
        if ((x -= s.w_cmd) < 0) { CallMark m(c, 16); scalable_allocation_command(r.chance(1, 2) ? TBBMALLOC_CLEAN_ALL_BUFFERS : TBBMALLOC_CLEAN_THREAD_BUFFERS, nullptr); c.st.cmds++; continue; }
        if ((x -= s.w_sweep) < 0) {
            c.st.sweeps++; size_t n = std::min<size_t>(c.mine.size(), 64), from = c.mine.empty() ? 0 : r.below(c.mine.size());
            for (size_t k = 0; k < n; k++) { verify_live(c, c.mine[(from + k) % c.mine.size()], "sweep", (k & 3) == 0); c.st.swept++; }
            continue;
        }
        if ((x -= s.w_spawn) < 0) {
            if (!s.spawn) continue;
            reap_child(w);
            ChildJob* j = new ChildJob(); j->scen = &s; j->seed = r.next(); j->child_no = g_child_seq.fetch_add(1) + 1;
            for (int k = 0; k < s.nthreads; k++) if (k != t || s.nthreads == 1 || r.chance(1, 4)) j->targets.push_back(k);
            int give = (int)r.below(40);
            for (int k = 0; k < give && !c.mine.empty(); k++) { size_t q = r.below(c.mine.size()); Blk b = c.mine[q]; c.mine[q] = c.mine.back(); c.mine.pop_back(); if (b.ext <= (1u << 20)) c.mine_bytes -= std::min(c.mine_bytes, b.ext); j->given.push_back(b); }
            w.job = j; w.child = std::thread(child_body, j);
            continue;
        }
        do_extreme(c);
    }
    reap_child(w);
    // end of round: receive what is left in the inbox, then drain or trim, then verify everything held
    got.clear(); take_inbox(w, got, SIZE_MAX);
    for (auto& b : got) { c.st.received++; absorb_received(c, b); }
    if (s.drain) { for (auto& b : c.mine) do_free(c, b, "drain"); c.mine.clear(); }
    else {
        while (c.mine_bytes > kThreadCap / 2 || c.mine.size() > kThreadBlocks / 2) { size_t k = r.below(c.mine.size()); Blk b = c.mine[k]; c.mine[k] = c.mine.back(); c.mine.pop_back(); do_free(c, b, "trim"); }
        size_t n = 0; for (auto& b : c.mine) { verify_live(c, b, "end-of-round sweep", (n++ & 7) == 0); c.st.swept++; }
    }
    c.st.t_end = now_ns();
    progress();
}

// ------------------------------------------------------------------------------------------------ generator
static void generate(Scen& s, int cpus, long force_threads, long force_profile, bool quiet_cmds) {
    Rng r(s.seed);
    bool lowcpu = cpus > 0 && cpus <= 2;
    unsigned x = (unsigned)r.below(100);
    s.nthreads = lowcpu ? 2 + (int)r.below(4) : x < 35 ? 2 + (int)r.below(3) : x < 75 ? 4 + (int)r.below(5) : 8 + (int)r.below(9);
    if (force_threads) s.nthreads = (int)force_threads;
    if (s.nthreads > kWorkers) s.nthreads = kWorkers;
    static const int pw_[P_NPROF] = { 10, 10, 8, 14, 22, 8, 8, 6, 14 };
    int tot = 0; for (int w : pw_) tot += w; int y = (int)r.below(tot); s.profile = 0; while ((y -= pw_[s.profile]) >= 0) s.profile++;
    if (force_profile >= 0) s.profile = (int)force_profile;
    s.topo = (int)r.pick(std::vector<int>{ T_RANDOM, T_RANDOM, T_RING, T_RING, T_STAR, T_NONE });
    static const std::vector<int> classes = { 8, 16, 32, 48, 64, 80, 96, 112, 128, 160, 192, 224, 256, 320, 384, 448, 512, 640, 768, 896, 1024, 1792, 2688, 4032, 5376, 8128 };
    s.one_size = (size_t)r.pick(classes);
    bool heavy = s.profile == P_LARGE || s.profile == P_LARGEBIN || s.profile == P_ALL || s.profile == P_TABLE;
    s.nops = heavy ? 60 + (int)r.below(400) : 150 + (int)r.below(r.chance(1, 5) ? 3000 : 900);
    if (VRT_TSAN) s.nops = 40 + s.nops / 3;
    s.drain = r.chance(1, 3);
    s.spawn = !r.chance(1, 4);
    switch (r.below(5)) {
    case 0: s.w_alloc = 5000; s.w_free = 1000; s.w_hand = 2500; s.w_inbox = 1500; break;                   // producer/consumer: most frees are foreign
    case 1: s.w_alloc = 4000; s.w_free = 3500; s.w_hand = 300; s.w_inbox = 300; s.w_realloc = 1500; break;    // mostly owner frees and reallocs
    case 2: s.w_alloc = 3500; s.w_free = 2000; s.w_realloc = 2500; s.w_hand = 1000; s.w_inbox = 800; break;
    case 3: s.w_cmd = 60; s.w_spawn = 120; break;                                                            // clean-up commands and thread churn
    default: break;
    }
    if (quiet_cmds) s.w_cmd = 0;
    s.soft_limit = r.chance(1, 8) ? (long)(1 + r.below(16)) << 20 : 0;
    if (r.chance(1, 10)) s.huge_thr = (long)r.pick(std::vector<int>{ 8, 16, 64, 256, 1024 }) << 20;
}

// ------------------------------------------------------------------------------------------------ main
int main(int argc, char** argv) {
    Args a = standard_init(argc, argv, "c17");
    Result& R = result();
    long cases = a.num("cases", 500);
    g_light = (R.variant == "tsan");
    g_monitor = a.num("monitor", g_light ? 0 : 1) != 0;
    g_max_align_log = (int)a.num("max-align-log", (VRT_TSAN || VRT_ASAN) ? 24 : 30);
    g_big_cap = a.num("big-cap-mb", 256) << 20;
    long fixed_scn = a.num("scn", 0), force_threads = a.num("threads", 0), force_profile = a.num("profile", -1);
    int cpus = (int)a.num("cpus", 0);
    bool quiet_cmds = a.has("no-commands");

    // the system has another libtbbmalloc in /usr/lib: make sure the one built from the tree under test is loaded
    {
        Dl_info di; std::string lib = dladdr((void*)&scalable_malloc, &di) && di.dli_fname ? di.dli_fname : "?";
        std::string expect = a.str("expect-lib", "/build/malloc-");
        if (lib.find(expect) == std::string::npos) { fprintf(stderr, "[c17] wrong libtbbmalloc loaded: %s (expected a path containing %s)\n", lib.c_str(), expect.c_str()); return 2; }
        R.stat("lib_checked");
    }
    build_table();
    std::vector<int> ids = { 210, 211, 212, 213, 214, 215, 216, 217 };
    Rng top(mix(R.seed, 0xC17));
    for (int t = 0; t < kWorkers; t++) { Ctx& c = g_w[t].c; c.slot = t; c.code = (uint8_t)t; c.id_hi = (uint64_t)(t + 1) << 48; c.in_call = &g_w[t].in_call; }
    { void* p = scalable_malloc(1); scalable_free(p); }      // initialise the allocator before any mode call

    static const char* call_name[] = { "-", "malloc", "realloc(null)", "calloc", "allocator::allocate", "posix_memalign", "aligned_malloc", "aligned_realloc(null)", "msize", "allocator::deallocate",
                                       "aligned_realloc(p,0)", "aligned_free", "realloc(p,0)", "free", "aligned_realloc", "realloc", "allocation_command" };
    WatchdogCfg wcfg; wcfg.hard_limit_s = 400;      // phases pinned to 1-2 CPUs on a loaded machine: 16 threads meeting at barriers need a while
    watchdog_start(wcfg, [&](const HangInfo& hi) {
        std::string inside; int n = 0;
        for (int t = 0; t < kWorkers; t++) if (int w = g_w[t].in_call.load()) { inside += " worker" + std::to_string(t) + ":" + call_name[w]; n++; }
        if (int w = g_child_in_call.load()) { inside += std::string(" short-lived:") + call_name[w]; n++; }
        std::string d = "no progress for " + std::to_string(hi.stalled_for) + "s; threads inside allocator entry points:" + (n ? inside : " none") + "; threads: " + hi.threads + "\n" + rings_dump();
        // harness threads wait only for each other's completion; a thread that sits inside an entry point is what everybody waits for
        if ((!hi.quiescent && !hi.spin_stall) || n == 0) { R.inconclusive++; fprintf(stderr, "[c17] watchdog: inconclusive stall\n%s\n", d.c_str()); R.finish_and_exit(4); }
        R.violation(hi.quiescent ? "c17.hang.quiescent" : "c17.hang.spin-stall", d.substr(0, 1500), g_scen_json);
        R.finish_and_exit(3);
    });

    // persistent workers: idle ones block on a condition variable (no polling); the participants of a round meet at a spinning barrier
    std::atomic<bool> quit{false}; std::atomic<uint64_t> gen{0}; std::atomic<int> done_cnt{0}; std::atomic<Scen*> cur{nullptr};
    std::mutex gm; std::condition_variable gcv; std::unique_ptr<Barrier> start_bar;
    std::vector<std::thread> pool;
    for (int t = 0; t < kWorkers; t++) pool.emplace_back([&, t] {
        uint64_t seen = 0;
        for (;;) {
            { std::unique_lock<std::mutex> l(gm); gcv.wait(l, [&] { return gen.load(std::memory_order_acquire) != seen; }); }
            seen++;
            if (quit.load()) return;
            Scen* s = cur.load();
            if (t < s->nthreads) { start_bar->wait(); run_script(g_w[t], *s, t); }
            done_cnt.fetch_add(1, std::memory_order_release);
        }
    });

    TStats total; long self_check_fail = 0, cur_soft = 0;
    for (long done = 0; done < cases; done++) {
        Scen s; s.seed = fixed_scn ? (uint64_t)fixed_scn : top.next() >> 1;
        generate(s, cpus, force_threads, force_profile, quiet_cmds);
        g_scen_json = s.json();
        set_crash_context(std::string("round:") + prof_name[s.profile]);
        // allocator modes are changed at quiescence only (all workers idle, all short-lived threads joined)
        if (s.soft_limit != cur_soft) { scalable_allocation_mode(TBBMALLOC_SET_SOFT_HEAP_LIMIT, s.soft_limit); cur_soft = s.soft_limit; if (s.soft_limit) R.stat("rounds_with_soft_heap_limit"); }
        else if (s.soft_limit) R.stat("rounds_with_soft_heap_limit");
        if (s.huge_thr >= 0) { scalable_allocation_mode(TBBMALLOC_SET_HUGE_SIZE_THRESHOLD, s.huge_thr); R.stat("huge_size_threshold_changes"); }
        for (int t = 0; t < kWorkers; t++) g_w[t].c.st = TStats();
        perturb_random(top, ids);
        cur.store(&s); done_cnt.store(0); start_bar.reset(new Barrier(s.nthreads));
        { std::lock_guard<std::mutex> l(gm); gen.fetch_add(1, std::memory_order_release); }
        gcv.notify_all();
        for (int spins = 0; done_cnt.load(std::memory_order_acquire) < kWorkers;) { if (++spins < 200) sched_yield(); else sleep_us(100); }
        perturb().clear();

        TStats rs; uint64_t max_start = 0, min_end = ~0ull; int active = 0;
        for (int t = 0; t < s.nthreads; t++) { const TStats& st = g_w[t].c.st; rs.add(st); if (st.ops) { active++; max_start = std::max(max_start, st.t_start); min_end = std::min(min_end, st.t_end); } }
        bool overlapped = active >= 2 && max_start < min_end;
        // second-largest start < second-smallest end would be enough; all-overlap is the conservative form when threads >= 2
        if (!overlapped && active >= 2) { std::vector<uint64_t> st, en; for (int t = 0; t < s.nthreads; t++) { st.push_back(g_w[t].c.st.t_start); en.push_back(g_w[t].c.st.t_end); }
            for (int i = 0; i < s.nthreads && !overlapped; i++) for (int j = i + 1; j < s.nthreads; j++) if (std::max(st[i], st[j]) < std::min(en[i], en[j])) { overlapped = true; break; } }
        total.add(rs);
        R.scenarios++;
        bool nontrivial = overlapped && rs.foreign_frees + rs.foreign_reallocs > 0;
        if (nontrivial) { R.nontrivial++; R.signature(mix(mix(s.seed, rs.digest), mix((uint64_t)rs.foreign_frees, (uint64_t)rs.reuse_by_owner * 1000003u + (uint64_t)rs.reuse_by_third))); }
        R.stat(std::string("profile_") + prof_name[s.profile]);
        R.stat("threads_" + std::to_string(s.nthreads));
        if (s.drain && g_monitor) {
            // self-check of the monitor: after a drain round only the blocks of workers that did not take part are live
            size_t expect = 0; for (int t = 0; t < kWorkers; t++) { for (auto& b : g_w[t].c.mine) expect += npieces(b); std::lock_guard<std::mutex> l(g_w[t].inbox.m); for (auto& b : g_w[t].inbox.v) expect += npieces(b); }
            if (shadow_pieces() != expect && g_viol.load() == 0) { self_check_fail++; if (self_check_fail < 5) fprintf(stderr, "[c17] self-check: pieces %zu expected %zu in round %s\n", shadow_pieces(), expect, g_scen_json.c_str()); }
        }
        if (nontrivial && R.want_sample() && rs.foreign_frees > 20 && rs.reuse_by_owner + rs.reuse_by_third > 0) {
            Json j; j.obj(); j.key("round").raw(s.json()); j.kv("operations", rs.ops); j.kv("allocations", rs.allocs); j.kv("frees", rs.frees); j.kv("frees_by_a_thread_other_than_the_allocating_one", rs.foreign_frees);
            j.kv("reallocs_in_place", rs.realloc_inplace); j.kv("reallocs_moved", rs.realloc_moved); j.kv("blocks_handed_over", rs.handoffs); j.kv("short_lived_threads", rs.spawns); j.kv("blocks_left_by_exited_threads", rs.left_by_exited);
            j.kv("addresses_reused_by_allocating_thread_after_foreign_free", rs.reuse_by_owner); j.kv("addresses_reused_by_third_thread_after_foreign_free", rs.reuse_by_third);
            j.kv("peer_samples_inside_allocator", rs.peers_in_alloc); j.kv("peer_samples", rs.peers_sampled); j.end_obj(); R.sample(j.s);
        }
        progress();
        if (g_viol.load() > 200) break;
    }
    // final drain: everything still held is verified and freed by worker 0's context on the main thread
    quit.store(true); { std::lock_guard<std::mutex> l(gm); gen.fetch_add(1); } gcv.notify_all();
    for (auto& t : pool) t.join();
    {
        Scen s; s.nthreads = 1; g_scen_json = "{\"phase\":\"final drain\"}";
        Ctx& c = g_w[0].c; c.scen = &s; c.st = TStats(); c.in_call = nullptr;
        for (int t = 0; t < kWorkers; t++) {
            if (t) { for (auto& b : g_w[t].c.mine) c.mine.push_back(b); g_w[t].c.mine.clear(); }
            for (auto& b : g_w[t].inbox.v) c.mine.push_back(b); g_w[t].inbox.v.clear();
        }
        for (auto& b : c.mine) do_free(c, b, "final drain"); c.mine.clear();
        total.add(c.st);
        if (g_monitor && shadow_pieces() != 0 && g_viol.load() == 0) self_check_fail++;
        scalable_allocation_command(TBBMALLOC_CLEAN_ALL_BUFFERS, nullptr);
    }
    watchdog_stop();
    if (self_check_fail || (g_shadow_missing.load() && g_viol.load() == 0)) { fprintf(stderr, "[c17] monitor self-check failed: %ld rounds, %ld missing pieces\n", self_check_fail, g_shadow_missing.load()); R.stat("monitor_self_check_failed", self_check_fail + g_shadow_missing.load()); }
    R.stat("ops", total.ops); R.stat("allocs", total.allocs); R.stat("frees", total.frees); R.stat("foreign_frees", total.foreign_frees); R.stat("frees_after_owner_thread_exit", total.frees_after_exit);
    R.stat("reallocs", total.reallocs); R.stat("realloc_inplace", total.realloc_inplace); R.stat("realloc_moved", total.realloc_moved); R.stat("foreign_reallocs_moved", total.foreign_reallocs);
#if VRT_TSAN
    R.stat("tsan_mremap_emulated", g_mremap_emulated.load());
#endif
    R.stat("handoffs", total.handoffs); R.stat("received", total.received); R.stat("cleanup_commands", total.cmds); R.stat("sweeps", total.sweeps); R.stat("blocks_swept", total.swept);
    R.stat("short_lived_threads", total.spawns); R.stat("blocks_left_by_exited_threads", total.left_by_exited); R.stat("extreme_calls", total.extreme); R.stat("invalid_alignment_calls", total.invalid_args);
    R.stat("null_results", total.nulls); R.stat("unexpected_null", total.unexpected_null); R.stat("reuse_after_foreign_free_by_owner", total.reuse_by_owner); R.stat("reuse_after_foreign_free_by_third", total.reuse_by_third);
    R.stat("peer_samples", total.peers_sampled); R.stat("peer_samples_inside_allocator", total.peers_in_alloc); R.stat("calloc_checked", total.calloc_checked); R.stat("aligned_allocs", total.aligned_allocs);
    R.stat("aligned_allocs_1MB_and_up", total.big_align); R.stat("huge_blocks_64MB_and_up", total.huge); R.stat("table_sizes_drawn", total.table_sizes);
    R.stat_max("max_table_passes_x100", (long long)(g_table_cursor.load() * 100 / g_table.size())); R.stat_max("max_table_size", (long long)g_table.size());
    R.stat("monitor_on_rounds", g_monitor ? R.scenarios.load() : 0);
    for (auto& kv : total.cls) { if (kv.first & (1u << 20)) { unsigned bkt = kv.first & 0xfffff; R.stat("lg_" + std::to_string(bkt / 4) + "." + std::to_string(bkt % 4), kv.second); } else R.stat("cls_" + std::to_string(kv.first), kv.second); }
    R.stat("hook_delays", (long long)perturb().delays.load());
    R.finish_and_exit(0);
}
