// C09 history engine: runs per-thread operation plans against a real queue, records the history, helps blocked
// operations only when the abstract state says they may legitimately be blocked, and checks the result
// (WGL for short histories, O(n log n) aspect checks for every history).
#pragma once
#include "c09_common.h"

namespace c09 {

struct PlanOp { uint8_t kind; long val; uint16_t delay; };
struct Plan {
    int nthreads = 2;
    std::vector<PlanOp> ops[Pool::kMax];
    long cap = -1;              // bounded queue capacity; -1 = default (infinite)
    bool bounded = false;
    int size_class = 0;         // index into {8,16,32,64,128,200}
    int preadvance = 0;         // push/pop pairs executed single-threaded before the history (ticket offset => page boundaries)
    int prefill = 0;            // items left in the queue before the history starts
    bool wall_clock = false;
    long arm_ctor[2] = { -1, -1 }, arm_alloc = -1;
    int cls = 'L';
    uint64_t seed = 0;
    int max_help = 40;          // helper operations the coordinator may add
    bool focus_page_switch = false;   // delay mostly at the page-switch hook (under page_mutex, after the pusher's turn check)
    int total() const { int n = 0; for (int t = 0; t < nthreads; t++) n += (int)ops[t].size(); return n; }
};

inline std::string plan_json(const Plan& p) {
    static const int sizes[] = { 8, 16, 32, 64, 128, 200 };
    Json j; j.obj(); j.kv("class", std::string(1, (char)p.cls)); j.kv("seed", (unsigned long long)p.seed); j.kv("queue", p.bounded ? "concurrent_bounded_queue" : "concurrent_queue");
    j.kv("capacity", p.cap); j.kv("elem_bytes", sizes[p.size_class]); j.kv("preadvance", p.preadvance); j.kv("prefill", p.prefill); j.kv("clock", p.wall_clock ? "monotonic+2us" : "seq");
    if (p.arm_ctor[0] >= 0) { j.key("ctor_throws_at").arr(); j.val(p.arm_ctor[0]); if (p.arm_ctor[1] >= 0) j.val(p.arm_ctor[1]); j.end_arr(); }
    if (p.arm_alloc >= 0) j.kv("page_alloc_fails_at", p.arm_alloc);
    j.key("threads").arr();
    for (int t = 0; t < p.nthreads; t++) { j.arr(); for (auto& o : p.ops[t]) { if (j.s.size() > 2500) break; j.arr(); j.val(kind_names[o.kind]); if (is_push(o.kind)) j.val(o.val); j.end_arr(); } j.end_arr(); }
    j.end_arr(); j.end_obj(); return j.s;
}

// ------------------------------------------------------------------------------------------------ queue adapters
template <class Q> struct QTraits;
template <class T, class A> struct QTraits<tbb::concurrent_queue<T, A>> {
    static constexpr bool bounded = false; using elem = T;
    static long push(tbb::concurrent_queue<T, A>& q, long v) { T e(v); q.push(e); return RS_OK; }
    static long emplace(tbb::concurrent_queue<T, A>& q, long v) { q.emplace(v, InQ()); return RS_OK; }
    static long try_push(tbb::concurrent_queue<T, A>& q, long v) { return push(q, v); }
    static void abort(tbb::concurrent_queue<T, A>&) {}
    static bool pop(tbb::concurrent_queue<T, A>& q, T& e) { return q.try_pop(e); }
    static void set_cap(tbb::concurrent_queue<T, A>&, long) {}
    static long size(tbb::concurrent_queue<T, A>& q) { return (long)q.unsafe_size(); }
};
template <class T, class A> struct QTraits<tbb::concurrent_bounded_queue<T, A>> {
    static constexpr bool bounded = true; using elem = T;
    static long push(tbb::concurrent_bounded_queue<T, A>& q, long v) { T e(v); q.push(e); return RS_OK; }
    static long emplace(tbb::concurrent_bounded_queue<T, A>& q, long v) { q.emplace(v, InQ()); return RS_OK; }
    // odd values go through try_emplace, even ones through try_push (same contract)
    static long try_push(tbb::concurrent_bounded_queue<T, A>& q, long v) { if (v & 1) return q.try_emplace(v, InQ()) ? RS_OK : RS_FULL; T e(v); return q.try_push(e) ? RS_OK : RS_FULL; }
    static void abort(tbb::concurrent_bounded_queue<T, A>& q) { q.abort(); }
    static bool pop(tbb::concurrent_bounded_queue<T, A>& q, T& e) { q.pop(e); return true; }
    static void set_cap(tbb::concurrent_bounded_queue<T, A>& q, long c) { if (c >= 0) q.set_capacity(c); }
    static long size(tbb::concurrent_bounded_queue<T, A>& q) { return (long)q.size(); }
};

// one operation against the real queue, exceptions mapped to result codes
template <class Q> long do_op(Q& q, int kind, long val) {
    using Tr = QTraits<Q>; using T = typename Tr::elem;
    try {
        switch (kind) {
        case K_PUSH: return Tr::push(q, val);
        case K_EMPLACE: return Tr::emplace(q, val);
        case K_TRY_PUSH: return Tr::try_push(q, val);
        case K_POP: { T e; Tr::pop(q, e); return e.ok() ? e.v : RS_CORRUPT; }
        default: { T e; if (!q.try_pop(e)) return RS_EMPTY; return e.ok() ? e.v : RS_CORRUPT; }
        }
    } catch (Boom&) { return RS_THREW; }
    catch (tbb::user_abort&) { return RS_ABORT; }
    catch (tbb::bad_last_alloc&) { return RS_BADLAST; }
    catch (std::bad_alloc&) { return RS_BADALLOC; }
}

// ------------------------------------------------------------------------------------------------ outcome of one history
struct Outcome {
    std::vector<Op> ops;            // everything, including helper and drain operations of the coordinator
    std::vector<long> drained;
    int helper_ops = 0; long helper_not_sure = 0;
    bool reported = false;          // the violation was already handed to Result (the scenario could still wedge afterwards)
    long try_push_while_pop_blocked = 0, try_push_full_while_pop_blocked = 0;
    std::string fail_key, fail_detail;
    void fail(const std::string& k, const std::string& d) { if (fail_key.empty()) { fail_key = k; fail_detail = d; } }
};

struct Engine {
    Pool pool;
    Clock clk;
    Log logs[Pool::kMax + 1];
    bool light = false;
    Engine() : pool(Pool::kMax) {}

    // Runs the plan on q (fresh). The coordinator (this thread) helps operations that are blocked *legitimately*:
    // blocked pops while the abstract queue is empty get a value pushed, blocked pushes while it is full get one popped.
    // A pop blocked with items available, or a push blocked with room, is never helped: it must complete by itself,
    // otherwise the watchdog reaches its verdict.
    template <class Q> void run(Q& q, const Plan& p, Outcome& out) {
        using Tr = QTraits<Q>;
        HangCtx& hc = hang_ctx();
        clk.wall = p.wall_clock || light; clk.c.store(1);
        const int n = p.nthreads, me = n;
        for (int t = 0; t <= n; t++) logs[t].reset(t);
        // ticket offset: single-threaded push/pop pairs (not part of the history; the queue is empty again afterwards)
        for (int i = 0; i < p.preadvance; i++) { do_op(q, K_PUSH, 900000 + i); long r = do_op(q, K_TRY_POP, 0); if (r != 900000 + i) out.fail("preadvance", "single-threaded push/try_pop pair returned " + std::to_string(r) + " instead of " + std::to_string(900000 + i)); }
        if (p.bounded) Tr::set_cap(q, p.cap);       // quiescent point: nothing in flight
        std::vector<long> initial;
        for (int i = 0; i < p.prefill; i++) { long r = do_op(q, K_PUSH, 800000 + i); if (r == RS_OK) { initial.push_back(800000 + i); hc.pushed.fetch_add(1, std::memory_order_relaxed); } }
        if (p.arm_ctor[0] >= 0 || p.arm_ctor[1] >= 0) { ctor_inj().disarm(); ctor_inj().arm(0, p.arm_ctor[0]); ctor_inj().arm(1, p.arm_ctor[1]); }
        if (p.arm_alloc >= 0) { alloc_inj().disarm(); alloc_inj().arm(0, p.arm_alloc); }
        std::atomic<int> nblk_pop{0}, nblk_push{0};
        std::atomic<long> opcount{0}, tp_blocked{0};
        std::atomic<char> thread_done[Pool::kMax]; for (auto& d : thread_done) d.store(0);
        pool.start(n, [&](int t) {
            Log& lg = logs[t];
            for (const PlanOp& o : p.ops[t]) {
                if (o.delay) spin_iters(o.delay);
                size_t i = lg.begin(clk, o.kind, is_push(o.kind) ? o.val : 0);
                long r;
                if (Tr::bounded && (o.kind == K_POP)) { BlockMark b1(nblk_pop), b2(hc.blocked_pop); r = do_op(q, o.kind, o.val); }
                else if (Tr::bounded && (o.kind == K_PUSH || o.kind == K_EMPLACE)) { BlockMark b1(nblk_push), b2(hc.blocked_push); r = do_op(q, o.kind, o.val); }
                else {
                    bool negstate = Tr::bounded && o.kind == K_TRY_PUSH && nblk_pop.load(std::memory_order_relaxed) > 0;
                    r = do_op(q, o.kind, o.val);
                    if (negstate) tp_blocked.fetch_add(1, std::memory_order_relaxed);
                }
                lg.end(clk, i, r);
                if (is_push(o.kind)) { if (r == RS_OK) hc.pushed.fetch_add(1, std::memory_order_relaxed); }
                else if (r >= 0) hc.popped.fetch_add(1, std::memory_order_relaxed);
                opcount.fetch_add(1, std::memory_order_relaxed);
                progress();
            }
            thread_done[t].store(1, std::memory_order_release);
        });
        // helper loop
        long helper_val = 700000; int sp = 0; long last_ops = -1; int stable = 0; bool helper_broken = false;
        while (!pool.done()) {
            relax(sp);
            if (!Tr::bounded) continue;
            int bp = nblk_pop.load(std::memory_order_relaxed), bu = nblk_push.load(std::memory_order_relaxed);
            int fin = pool.finished.load(std::memory_order_relaxed);
            long oc = opcount.load(std::memory_order_relaxed);
            if (bp + bu + fin < n || (bp == 0 && bu == 0)) { stable = 0; last_ops = oc; continue; }   // somebody is still running non-blocking code
            if (oc != last_ops) { last_ops = oc; stable = 0; continue; }
            if (++stable < 8) continue;                        // same picture for a few polls: everybody left is inside a blocking call ...
            stable = 0;
            // ... and really blocked there: flagged asleep by the library's own sleep hooks, and (OS view) sleeping without having been
            // scheduled between two samples. "Nothing moved for a while" is not enough: on a slow or loaded machine a thread inside a
            // blocking call may simply not have run yet, and then the content the helping operation is judged against is not known.
            {
                std::vector<int> tids; bool flagged = true;
                for (int t = 0; t < n; t++) if (!thread_done[t].load(std::memory_order_acquire)) {
                    HookThread* h = pool.hts[t].load(std::memory_order_acquire);
                    if (!h || h->sleeping_on.load(std::memory_order_relaxed) == nullptr) { flagged = false; break; }
                    tids.push_back(h->tid);
                }
                if (!flagged || tids.empty() || !threads_asleep_stable(tids)) { out.helper_not_sure++; continue; }
                if (opcount.load(std::memory_order_relaxed) != oc) continue;
            }
            long inside = hc.pushed.load(std::memory_order_relaxed) - hc.popped.load(std::memory_order_relaxed);
            if (out.helper_ops >= p.max_help) continue;                // cannot happen with a working queue (every help releases a call); the watchdog decides
            // The helping operation itself is judged: everybody else is finished or blocked, so the abstract content is known.
            // If it fails although it must succeed, that is reported at once; the blocked calls are then released with abort()
            // (user_abort is a no-op in the model) so that the scenario still ends.
            auto broken = [&](const char* key, const std::string& what) {
                out.fail(key, what);
                if (!out.reported) {
                    out.reported = true;
                    std::vector<Op> sofar; for (int t = 0; t <= n; t++) sofar.insert(sofar.end(), logs[t].ops.begin(), logs[t].ops.end());
                    Json j; j.obj(); j.key("plan").raw(plan_json(p)); j.key("history_so_far[thread,op,arg,result,call,ret]").raw(history_json(sofar, kind_names)); j.end_obj();
                    result().violation(cls_key(p.cls, key), what + "\n" + rings_dump(6), j.s);
                }
            };
            if (helper_broken) { Tr::abort(q); out.helper_ops++; progress(); continue; }
            if (bp > 0 && bu == 0 && inside <= 0) {            // pops blocked on an (abstractly) empty queue: feed one value
                Log& lg = logs[me]; size_t i = lg.begin(clk, K_TRY_PUSH, helper_val); long r = do_op(q, K_TRY_PUSH, helper_val); lg.end(clk, i, r);
                out.try_push_while_pop_blocked++;
                if (r == RS_OK) { hc.pushed.fetch_add(1, std::memory_order_relaxed); progress(); }
                else if (r == RS_FULL && p.cap != 0) {
                    out.try_push_full_while_pop_blocked++;
                    helper_broken = true;
                    broken("try_push-false-not-full", "try_push/try_emplace of the coordinator returned false while " + std::to_string(bp) + " pop(s) were blocked, every other thread had finished, and completed pushes - completed pops = " + std::to_string(inside) + " (capacity " + std::to_string(p.cap) + "): the queue was empty (negative-size state) during the whole call");
                }
                helper_val++; out.helper_ops++;
            } else if (bu > 0 && bp == 0 && p.cap >= 0 && inside >= p.cap) {   // pushes blocked on a full queue: take one value out
                Log& lg = logs[me]; size_t i = lg.begin(clk, K_TRY_POP, 0); long r = do_op(q, K_TRY_POP, 0); lg.end(clk, i, r);
                if (r >= 0) { hc.popped.fetch_add(1, std::memory_order_relaxed); progress(); }
                else if (r == RS_EMPTY && p.cap > 0) {
                    helper_broken = true;
                    broken("empty-with-item-inside", "try_pop of the coordinator reported empty while " + std::to_string(bu) + " push(es) were blocked on a full queue (completed pushes - completed pops = " + std::to_string(inside) + ", capacity " + std::to_string(p.cap) + ") and nobody else was running");
                }
                out.helper_ops++;
            }
            // otherwise: a blocked call that has what it waits for; it has to finish on its own
        }
        pool.wait();
        out.try_push_while_pop_blocked += tp_blocked.load();
        ctor_inj().disarm(); alloc_inj().disarm();
        // quiescent drain by the coordinator (part of the history)
        for (;;) {
            Log& lg = logs[me]; size_t i = lg.begin(clk, K_TRY_POP, 0); long r = do_op(q, K_TRY_POP, 0); lg.end(clk, i, r);
            if (r == RS_EMPTY) break;
            if (r >= 0) { out.drained.push_back(r); hc.popped.fetch_add(1, std::memory_order_relaxed); }
            else { out.fail("drain-exception", "try_pop at quiescence ended with code " + std::to_string(r)); break; }
            if (out.drained.size() > 100000) { out.fail("drain-endless", "quiescent drain returned more than 100000 values"); break; }
        }
        for (int t = 0; t <= n; t++) out.ops.insert(out.ops.end(), logs[t].ops.begin(), logs[t].ops.end());
        out_initial = initial;
    }
    std::vector<long> out_initial;
};

// ------------------------------------------------------------------------------------------------ aspect checks
// Sound for any history length; values are unique. `initial` = values in the queue (in order) before the history.
struct Aspect {
    long pushes = 0, pops = 0, empties = 0, fulls = 0, exceptions = 0, aborted = 0;
};
inline void aspect_check(const std::vector<Op>& ops, const std::vector<long>& initial, long cap, Outcome& out, Aspect& as, bool strict_full = true) {
    struct V { uint64_t pcall = 0, pret = 0, ccall = ~0ull, cret = ~0ull; int pth = -1; bool pushed = false, popped = false; long seq = 0; };
    std::map<long, V> vals;
    long order = 0;
    for (long v : initial) { V& x = vals[v]; x.pushed = true; x.pcall = 0; x.pret = 0; x.pth = 1000; x.seq = order++; }
    for (const Op& o : ops) {
        if (o.open) continue;
        if (is_push(o.kind)) {
            if (o.res == RS_OK) { V& x = vals[o.arg]; if (x.pushed) out.fail("harness-duplicate-push-id", std::to_string(o.arg)); x.pushed = true; x.pcall = o.call; x.pret = o.ret; x.pth = o.thread; as.pushes++; }
            else if (o.res == RS_FULL) as.fulls++; else if (o.res == RS_ABORT) as.aborted++; else as.exceptions++;
        }
    }
    for (const Op& o : ops) {
        if (o.open || is_push(o.kind)) continue;
        if (o.res == RS_EMPTY) { as.empties++; continue; }
        if (o.res == RS_ABORT) { as.aborted++; continue; }
        if (o.res == RS_CORRUPT) { out.fail("element-corrupt", "a popped element's padding does not match its value"); continue; }
        if (o.res < 0) { out.fail("pop-exception", "pop ended with code " + std::to_string(o.res)); continue; }
        auto it = vals.find(o.res);
        if (it == vals.end() || !it->second.pushed) { out.fail("value-invented", "popped value " + std::to_string(o.res) + " was never (successfully) pushed"); continue; }
        V& x = it->second;
        if (x.popped) { out.fail("value-duplicated", "value " + std::to_string(o.res) + " was popped twice"); continue; }
        x.popped = true; x.ccall = o.call; x.cret = o.ret; as.pops++;
        if (o.ret < x.pcall) out.fail("pop-before-push", "value " + std::to_string(o.res) + " was returned by a pop before its push was invoked");
    }
    // conservation at quiescence (the drain is part of ops): everything pushed was popped exactly once
    for (auto& kv : vals) if (kv.second.pushed && !kv.second.popped) { out.fail("value-lost", "value " + std::to_string(kv.first) + " was pushed but neither popped nor found by the quiescent drain"); break; }
    // FIFO vs real time: push(A) returned before push(B) was invoked  =>  not (pop(B) returned before pop(A) was invoked)
    {
        std::vector<const V*> byret, bycall; std::vector<long> idret, idcall;
        std::vector<std::pair<uint64_t, long>> a, b;
        for (auto& kv : vals) if (kv.second.pushed && kv.second.popped) { a.push_back({ kv.second.pret, kv.first }); b.push_back({ kv.second.pcall, kv.first }); }
        std::sort(a.begin(), a.end()); std::sort(b.begin(), b.end());
        size_t ia = 0; uint64_t max_ccall = 0; long max_id = -1;
        for (auto& pb : b) {
            while (ia < a.size() && a[ia].first < pb.first) { const V& va = vals[a[ia].second]; if (va.ccall >= max_ccall) { max_ccall = va.ccall; max_id = a[ia].second; } ia++; }
            const V& vb = vals[pb.second];
            if (max_id >= 0 && max_ccall > vb.cret && max_id != pb.second) {
                out.fail("order-broken", "value " + std::to_string(max_id) + " was pushed strictly before " + std::to_string(pb.second) + " but its pop was invoked only after the pop of " + std::to_string(pb.second) + " had returned");
                break;
            }
        }
        // initial values precede everything and are ordered among themselves: covered above through pcall = pret = 0 < any call
        // (equal stamps 0 among the initial values: check their relative order explicitly)
        long prev = -1; uint64_t prev_call = 0;
        for (long v : initial) { const V& x = vals[v]; if (!x.popped) continue; if (prev >= 0 && prev_call > x.cret) { out.fail("order-broken", "initial value " + std::to_string(prev) + " precedes " + std::to_string(v) + " but was popped strictly later"); break; } if (x.ccall > prev_call) { prev_call = x.ccall; prev = v; } }
    }
    // empty witness: try_pop said "empty" during [c,r] although some value was inside for the whole call
    {
        std::vector<std::pair<uint64_t, uint64_t>> ins;   // (push ret, pop call)
        for (auto& kv : vals) if (kv.second.pushed) ins.push_back({ kv.second.pret, kv.second.ccall });
        std::sort(ins.begin(), ins.end());
        std::vector<const Op*> em; for (const Op& o : ops) if (!o.open && !is_push(o.kind) && o.res == RS_EMPTY) em.push_back(&o);
        std::sort(em.begin(), em.end(), [](const Op* x, const Op* y) { return x->call < y->call; });
        size_t i = 0; uint64_t mx = 0;
        for (const Op* e : em) {
            while (i < ins.size() && ins[i].first < e->call) { mx = std::max(mx, ins[i].second); i++; }
            if (mx > e->ret) { out.fail("empty-with-item-inside", "try_pop (thread " + std::to_string(e->thread) + ") reported empty although a value pushed before the call was popped only after it"); break; }
        }
    }
    if (cap >= 0) {
        // capacity: a value is certainly inside from its push's return to its pop's invocation
        std::vector<std::pair<uint64_t, int>> ev;
        for (auto& kv : vals) if (kv.second.pushed) { ev.push_back({ kv.second.pret, +1 }); if (kv.second.popped) ev.push_back({ kv.second.ccall, -1 }); }
        std::sort(ev.begin(), ev.end(), [](const std::pair<uint64_t, int>& x, const std::pair<uint64_t, int>& y) { return x.first != y.first ? x.first < y.first : x.second < y.second; });
        long cur = 0, mxs = 0; for (auto& e : ev) { cur += e.second; mxs = std::max(mxs, cur); }
        if (mxs > cap) out.fail("capacity-exceeded", std::to_string(mxs) + " values were certainly stored at one instant, capacity " + std::to_string(cap));
        // try_push said "full" during [c,r]: at most #(pushes invoked before r) - #(pops returned before c) values can have been inside
        if (strict_full) {
            std::vector<uint64_t> pc, cr;
            for (auto& kv : vals) if (kv.second.pushed) { pc.push_back(kv.second.pcall); if (kv.second.popped) cr.push_back(kv.second.cret); }
            // pushes that never returned normally cannot be inside; blocked (open) pushes could: count them as possibly inside
            for (const Op& o : ops) if (o.open && is_push(o.kind)) pc.push_back(o.call);
            std::sort(pc.begin(), pc.end()); std::sort(cr.begin(), cr.end());
            for (const Op& o : ops) if (!o.open && o.kind == K_TRY_PUSH && o.res == RS_FULL) {
                long maybe = (long)(std::lower_bound(pc.begin(), pc.end(), o.ret) - pc.begin()) - (long)(std::lower_bound(cr.begin(), cr.end(), o.call) - cr.begin());
                if (maybe < cap) { out.fail("try_push-false-not-full", "try_push (thread " + std::to_string(o.thread) + ") failed although at most " + std::to_string(maybe) + " values can have been inside at any instant of the call, capacity " + std::to_string(cap)); break; }
            }
        }
    }
}

// WGL on the full history when it is short enough. Returns false if inconclusive.
inline Lin wgl_check(const std::vector<Op>& ops, const std::vector<long>& initial, long cap, uint64_t budget, uint64_t* steps) {
    FifoModel m; m.cap = cap; m.initial = initial;
    return check_linearizable(m, ops, budget, nullptr, steps);
}

} // namespace c09
