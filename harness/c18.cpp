// C18: tbbmalloc fails cleanly; memory pools stay inside and give back their raw memory.
//
// Every case runs in a process of its own, forked from a parent that never calls the allocator (c18_proc.h), with the OS
// mapping calls of libtbbmalloc interposed by this executable (c18_interpose.h).
// Modes (--mode):
//   E  operation traces over the default allocator's entry points; the k-th mapping call refused, for every k (c18_enum.h)
//   P  the same for memory pools: instrumented raw-memory callbacks (region log) refused by index, and mapping calls (c18_pool.h)
//   X  extreme-argument table, one row per process (c18_ext.h); --shard i --nshards n splits the table
//   M  several threads on the default allocator and several pools at once, refusals arriving at random calls (c18_mt.h)
//   I  N requests while the library cannot even initialise, then memory comes back (N >= 1024 used to exhaust the TLS keys)
#define VRT_IMPL
#define C18_DEFINE_INTERPOSERS
#include "c18_common.h"
#include "c18_enum.h"
#include "c18_pool.h"
#include "c18_ext.h"
#include "c18_mt.h"

using namespace vrt;
using namespace c18;

int main(int argc, char** argv) {
    Args a = standard_init(argc, argv, "c18");
    Result& R = result();
    long cases = a.num("cases", 300);
    std::string mode = R.mode == "default" ? "E" : R.mode;
    bool thorough = a.num("thorough", 0) != 0;
    Rng top(mix(R.seed, 0xC18));
    Runner P; P.cls = mode[0];
    // the parent never enters the allocator: children start from the pristine library
    if (mode == "E") { EnumCfg c; c.budget = cases; c.thorough = thorough; c.cap = (int)a.num("cap", 400); c.subset_max = (int)a.num("subsets", thorough ? 10 : 8); c.only_shape = a.str("shape", ""); run_enum(P, c, top); }
    else if (mode == "P") { PoolCfg c; c.budget = cases; c.thorough = thorough; c.cap = (int)a.num("cap", 300); c.subset_max = (int)a.num("subsets", thorough ? 10 : 8); run_pool_enum(P, c, top); }
    else if (mode == "X") { run_ext_table(P, (int)a.num("shard", 0), (int)a.num("nshards", 1), a.num("full", 1) != 0, a.str("only", "")); }
    else if (mode == "M") { MtCfg c; c.children = cases; c.rounds = (int)a.num("rounds", 12); c.threads_max = (int)a.num("threads", 6); run_mt(P, c, top); }
    else if (mode == "I") {          // failed initialisations; --n N: exactly that many, else a ladder around the TLS-key limit (1024) plus random counts
        std::vector<long> ns; if (a.has("n")) ns.push_back(a.num("n", 1100)); else { ns = { 1, 2, 7, 60, 400, 1023, 1024, 1100, 2600 }; for (long i = 0; i < cases; i++) ns.push_back(1 + (long)top.below(3000)); }
        run_init_failures(P, ns);
    }
    else { fprintf(stderr, "unknown mode %s\n", mode.c_str()); return 2; }
    R.stat("child_processes", P.children);
    // the driver keeps only the first six samples of a whole run; one sample per process also travels as a stat key so that
    // the check module can show cases of every class
    { std::lock_guard<std::mutex> l(R.m); if (!R.samples.empty()) { std::string s = R.samples[P.children % R.samples.size()]; if (s.size() <= 2500) R.stats["Y|" + mode + "|" + s] += 1; } }
    R.write();
    return 0;
}
