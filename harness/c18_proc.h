// C18: every case runs in a child process forked from a parent that never touched libtbbmalloc, so each case starts from
// the pristine, uninitialised allocator (same address-space layout in every child: the k-th mapping call of a trace is
// the same call in the counting run and in every injection run). The child reports through a pipe; a crash, an
// assertion of the debug allocator or a watchdog verdict is a recorded outcome of that case only.
#pragma once
#include "c18_interpose.h"
#include <sys/wait.h>
#include <poll.h>
#include <fcntl.h>
#include <csignal>

namespace c18 {

// page shared between parent and child: what the child was doing when it died
struct SharedCtx {
    volatile long op_index; volatile long inside_call;
    volatile long map_calls, map_fired, raw_calls, raw_fired;
    char op[200];
};
inline SharedCtx* g_shared = nullptr;

inline std::string one_line(std::string s, size_t cap = 1500) {
    for (char& c : s) if (c == '\n' || c == '\t' || c == '\r') c = ' ';
    if (s.size() > cap) s.resize(cap);
    return s;
}

// the driver greps the harness's own stderr for "Assertion ... failed (located in ..." to catch assertions of the harness process itself;
// a child's assertion is reported under this class's key, so its quoted text must not match that pattern a second time
inline std::string lower_assertion(std::string s) { for (size_t p = 0; (p = s.find("Assertion ", p)) != std::string::npos; p++) s[p] = 'a'; return s; }

// ------------------------------------------------------------------------------------------------ child side
struct Child {
    int fd = -1;
    char cls = '?';
    std::map<std::string, long long> stats, stat_maxes;
    std::vector<uint64_t> sigs;
    std::string sample;
    long violations = 0;
    void put(const std::string& line) { const char* p = line.data(); size_t n = line.size(); while (n) { ssize_t w = ::write(fd, p, n); if (w <= 0) { if (errno == EINTR) continue; break; } p += w; n -= (size_t)w; } }
    void stat(const std::string& k, long long d = 1) { stats[k] += d; }
    void stat_max(const std::string& k, long long v) { auto& r = stat_maxes[k]; if (v > r) r = v; }
    void signature(uint64_t h) { sigs.push_back(h); }
    // written out at once: the process may die right after
    void violation(const std::string& key, const std::string& detail, const std::string& scen = "{}") {
        if (++violations > 6) return;
        put("V\t" + one_line(key, 200) + "\t" + one_line(detail) + "\t" + one_line(scen.empty() ? "{}" : scen, 3000) + "\n");
    }
    void finish() {
        std::string o;
        for (auto& kv : stats) o += "S\t" + kv.first + "\t" + std::to_string(kv.second) + "\n";
        for (auto& kv : stat_maxes) o += "M\t" + kv.first + "\t" + std::to_string(kv.second) + "\n";
        for (auto h : sigs) o += "G\t" + vrt::hex64(h) + "\n";
        if (!sample.empty()) o += "E\t" + one_line(sample, 6000) + "\n";
        o += "D\n";
        put(o);
    }
};
inline Child* g_child = nullptr;
inline std::string g_scenario_json = "{}";           // description of the running case (for violations raised from monitors)
inline std::string cls_key(char cls, const std::string& what) { return std::string("c18.") + cls + "." + what; }
inline void child_problem(const char* key, const std::string& detail) {
    if (!g_child) return;
    std::string d = detail;
    if (g_shared) d += std::string(" | during: ") + const_cast<const char*>(g_shared->op);
    g_child->violation(cls_key(g_child->cls, key), d, g_scenario_json);
}
inline void note_op(long index, const char* fmt, ...) {
    if (!g_shared) return;
    g_shared->op_index = index;
    va_list ap; va_start(ap, fmt); vsnprintf(g_shared->op, sizeof g_shared->op, fmt, ap); va_end(ap);
}
inline void publish_counts() {
    if (!g_shared) return;
    g_shared->map_calls = g_map_inj.calls.load(); g_shared->map_fired = g_map_inj.fired.load();
    g_shared->raw_calls = g_raw_inj.calls.load(); g_shared->raw_fired = g_raw_inj.fired.load();
}

// ------------------------------------------------------------------------------------------------ parent side
struct Report {
    bool done = false;          // the child ran to its end and reported
    int exit_code = -1, term_sig = 0;
    bool inconclusive = false;
    std::map<std::string, long long> stats, stat_maxes;
    std::vector<uint64_t> sigs;
    std::string sample;
    struct V { std::string key, detail, scen; };
    std::vector<V> viols;
    std::string err_tail;
    long map_calls = 0, map_fired = 0, raw_calls = 0, raw_fired = 0, op_index = 0; std::string op;
    long long st(const std::string& k) const { auto it = stats.find(k); return it == stats.end() ? 0 : it->second; }
};

inline const char* signame(int s) {
    switch (s) { case SIGSEGV: return "SIGSEGV"; case SIGABRT: return "SIGABRT"; case SIGBUS: return "SIGBUS"; case SIGFPE: return "SIGFPE"; case SIGILL: return "SIGILL"; case SIGKILL: return "SIGKILL"; default: return "SIG"; }
}

struct Runner {
    char cls = '?';
    long children = 0;
    // Runs body(Child&) in a forked child. The parent must be single-threaded and must never have called the allocator.
    template <class F> Report run(F&& body) {
        using namespace vrt;
        Report rep;
        if (!g_shared) { g_shared = (SharedCtx*)syscall(SYS_mmap, nullptr, 4096, PROT_READ | PROT_WRITE, MAP_SHARED | MAP_ANONYMOUS, -1, 0); }
        memset((void*)g_shared, 0, sizeof *g_shared);
        int pr[2], pe[2];
        if (pipe(pr) != 0 || pipe(pe) != 0) { perror("pipe"); exit(2); }
        fflush(stdout); fflush(stderr);
        children++;
        pid_t pid = fork();
        if (pid < 0) { perror("fork"); exit(2); }
        if (pid == 0) {
            close(pr[0]); close(pe[0]);
            dup2(pe[1], 2); close(pe[1]);
            Child c; c.fd = pr[1]; c.cls = cls; g_child = &c;
            g_problem = child_problem;
            WatchdogCfg wc;
            watchdog_start(wc, [&c](const HangInfo& hi) {
                // runs on the watchdog thread; the case is wedged, nothing else of it will ever be reported
                std::string what = const_cast<const char*>(g_shared->op);
                long inside = g_threads_inside.load();
                std::string d = "no progress for " + std::to_string((int)hi.stalled_for) + " s (" + (hi.quiescent ? "quiescent: every thread asleep and unscheduled" : hi.spin_stall ? "spin-stall: every runnable thread burnt its CPU budget" : "hard limit") +
                                "); threads inside an allocator entry point: " + std::to_string(inside) + "; last operation: " + what + "; threads: " + hi.threads;
                // predicate: an allocator entry point never waits for the caller's other threads; a thread that sits in one for ever is stuck in the library
                if ((hi.quiescent || hi.spin_stall) && inside > 0) {
                    c.violations = 0;
                    c.violation(cls_key(c.cls, hi.quiescent ? "hang.quiescent" : "hang.spin-stall"), d, g_scenario_json);
                    _exit(3);
                }
                c.put("I\t" + one_line(d) + "\n");
                _exit(4);
            });
            body(c);
            publish_counts();
            c.finish();
            _exit(0);
        }
        close(pr[1]); close(pe[1]);
        std::string out, err;
        pollfd fds[2] = { { pr[0], POLLIN, 0 }, { pe[0], POLLIN, 0 } };
        int open_n = 2; char buf[8192];
        while (open_n > 0) {
            int rc = poll(fds, 2, -1);
            if (rc < 0) { if (errno == EINTR) continue; break; }
            for (int i = 0; i < 2; i++) {
                if (fds[i].fd < 0 || !(fds[i].revents & (POLLIN | POLLHUP | POLLERR))) continue;
                ssize_t n = read(fds[i].fd, buf, sizeof buf);
                if (n > 0) { std::string& dst = i == 0 ? out : err; dst.append(buf, (size_t)n); if (i == 1 && dst.size() > 16384) dst.erase(0, dst.size() - 8192); }
                else if (n == 0 || (n < 0 && errno != EINTR && errno != EAGAIN)) { close(fds[i].fd); fds[i].fd = -1; open_n--; }
            }
        }
        int st = 0; while (waitpid(pid, &st, 0) < 0 && errno == EINTR) {}
        if (WIFSIGNALED(st)) rep.term_sig = WTERMSIG(st); else rep.exit_code = WEXITSTATUS(st);
        rep.err_tail = err.size() > 2500 ? err.substr(err.size() - 2500) : err;
        rep.map_calls = g_shared->map_calls; rep.map_fired = g_shared->map_fired; rep.raw_calls = g_shared->raw_calls; rep.raw_fired = g_shared->raw_fired;
        rep.op_index = g_shared->op_index; rep.op = const_cast<const char*>(g_shared->op);
        size_t pos = 0;
        while (pos < out.size()) {
            size_t e = out.find('\n', pos); if (e == std::string::npos) break;    // an incomplete last line (child died while writing) is dropped
            std::string ln = out.substr(pos, e - pos); pos = e + 1;
            std::vector<std::string> f; size_t a = 0;
            for (;;) { size_t t = ln.find('\t', a); if (t == std::string::npos) { f.push_back(ln.substr(a)); break; } f.push_back(ln.substr(a, t - a)); a = t + 1; }
            if (f[0] == "D") rep.done = true;
            else if (f[0] == "S" && f.size() >= 3) rep.stats[f[1]] += atoll(f[2].c_str());
            else if (f[0] == "M" && f.size() >= 3) { auto& r = rep.stat_maxes[f[1]]; r = std::max<long long>(r, atoll(f[2].c_str())); }
            else if (f[0] == "G" && f.size() >= 2) rep.sigs.push_back(strtoull(f[1].c_str(), nullptr, 16));
            else if (f[0] == "E" && f.size() >= 2) rep.sample = f[1];
            else if (f[0] == "V" && f.size() >= 4) rep.viols.push_back(Report::V{ f[1], f[2], f[3] });
            else if (f[0] == "I") rep.inconclusive = true;
        }
        return rep;
    }

    // Folds a child's report into the process result. `scen` describes the case (JSON object) for violations made here.
    void absorb(const Report& rep, const std::string& scen) {
        vrt::Result& R = vrt::result();
        for (auto& kv : rep.stats) if (kv.first.rfind("L|", 0) != 0) R.stat(kv.first, kv.second);
        for (auto& kv : rep.stat_maxes) R.stat_max(kv.first, kv.second);
        for (auto& v : rep.viols) R.violation(v.key, v.detail, v.scen == "{}" ? scen : v.scen);
        if (rep.inconclusive) { R.inconclusive++; R.stat("children_inconclusive_stall"); return; }
        std::string where = " | last operation #" + std::to_string(rep.op_index) + ": " + rep.op + " | mapping calls " + std::to_string(rep.map_calls) + " (refused " + std::to_string(rep.map_fired) +
                            "), raw callbacks " + std::to_string(rep.raw_calls) + " (refused " + std::to_string(rep.raw_fired) + ") | stderr: " + lower_assertion(one_line(rep.err_tail, 900));
        if (rep.term_sig) {
            R.stat("children_crashed");
            std::string key;
            size_t ap = rep.err_tail.find("Assertion ");
            size_t lp = rep.err_tail.find("(located in the ");
            if (ap != std::string::npos && lp != std::string::npos) {
                size_t s = lp + strlen("(located in the "); size_t e = rep.err_tail.find(' ', s);
                key = "assert." + rep.err_tail.substr(s, e == std::string::npos ? std::string::npos : e - s);
            } else key = std::string("crash.") + signame(rep.term_sig);
            R.violation(cls_key(cls, key), std::string("the case's process died on ") + signame(rep.term_sig) + where, scen);
        } else if (!rep.done && rep.viols.empty()) {
            R.stat("children_exited_early");
            R.violation(cls_key(cls, "child-exit." + std::to_string(rep.exit_code)), "the case's process exited with code " + std::to_string(rep.exit_code) + " before reporting (sanitizer report?)" + where, scen);
        }
    }
};

} // namespace c18
