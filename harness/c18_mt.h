// C18 class M: several threads on the default allocator and on several pools at once; mapping calls and raw-memory
// callbacks are refused at random calls (or in a window of the global call sequence) while the threads are inside the
// allocator. Each round: phase A with refusals armed (a failing request must say so properly, live blocks stay intact),
// phase B with nothing refused (every request must succeed again), quiescent point (pool_reset / pool_destroy / region log).
#pragma once
#include "c18_pool.h"

namespace c18 {

struct MtCfg { long children = 4; int rounds = 12; int threads_max = 6; };

struct MtShared {
    static constexpr int kPools = 3;
    PoolLog L[kPools];
    std::atomic<Blk*> mailbox[32];
    std::atomic<int> phase_armed{0};           // 1 while a fault plan is armed
    std::atomic<int> forget_slot{-1};          // pool to be reset / destroyed at the next quiescent point
    std::atomic<long> api_failures{0}, api_success{0}, cross_frees{0}, fails_no_refusal_during_call{0}, violations{0};
    std::atomic<bool> stop{false};
    int nops = 200;
    SpinLock vmu; Child* C = nullptr;
    void fail(const std::string& what, const std::string& detail) { vmu.lock(); if (violations.fetch_add(1) < 6) C->violation(cls_key('M', what), detail, g_scenario_json); vmu.unlock(); }
};

struct MtThread {
    MtShared& G; int me; Rng r; std::vector<Blk> mine; uint32_t next_id;
    MtThread(MtShared& g, int i, uint64_t seed) : G(g), me(i), r(mix(seed, 0x700 + i)), next_id((uint32_t)i * 10000000u + 1) {}
    long fired_now() const { return g_raw_inj.fired.load(std::memory_order_relaxed) + g_map_inj.fired.load(std::memory_order_relaxed); }
    void check(const Blk& b, const char* when) { long d = first_damage(b.p, b.n, b.id); if (d >= 0) G.fail("live-block-damaged", std::string(when) + ": block #" + std::to_string(b.id) + " (" + std::to_string(b.n) + " bytes, " + (b.pool < 0 ? "default allocator" : "pool " + std::to_string(b.pool)) + ") lost its pattern at offset " + std::to_string(d) + " (thread " + std::to_string(me) + ")"); }
    void release(const Blk& b, const char* when) { check(b, when); if (b.pool < 0) { if (b.id & 1) x_free(b.p); else x_aligned_free(b.p); } else p_free(G.L[b.pool], b.p); }
    size_t pick_n(bool pool, bool fixed) {
        unsigned k = (unsigned)r.below(100);
        if (k < 40) return 1 + r.below(1024);
        if (k < 65) return 1025 + r.below(7104);
        if (k < 72) { static const std::vector<size_t> e = { 8, 1024, 8128, 8129, 16384, 65536, MB - 100, MB, MB + 1 }; return r.pick(e); }
        if (k < 88) return 8129 + r.below(150 * KB);
        if (k < 94 || fixed) return 150 * KB + r.below(900 * KB);
        return MB + r.below(pool ? 2 * MB : 6 * MB);
    }
    // one allocation-type request; armed: refusals may be in flight
    void request(bool armed) {
        int target = (int)r.below(5) - 2; if (target < 0) target = -1;               // -1 (3/5): default allocator, else pool 0..2
        if (target >= 0 && !G.L[target].alive) target = -1;
        bool fixed = target >= 0 && G.L[target].fixed;
        size_t n = pick_n(target >= 0, fixed), al = 0; Out o; const char* what; long f0 = fired_now();
        unsigned k = (unsigned)r.below(100);
        if (target < 0) {
            if (k < 45) { what = "scalable_malloc"; o = x_malloc(n); }
            else if (k < 55) { what = "scalable_calloc"; o = x_calloc(n, 1); }
            else if (k < 70) { what = "scalable_aligned_malloc"; al = (size_t)1 << r.below(15); o = x_aligned_malloc(n, al); }
            else if (k < 80) { what = "scalable_posix_memalign"; al = (size_t)8 << r.below(12); o = x_posix_memalign(al, n); }
            else if (k < 90) { what = "scalable_allocator::allocate"; o = x_allocator<char>(n); }
            else { what = "scalable_memory_resource::allocate"; al = (size_t)1 << r.below(13); o = x_pmr(n, al); }
            if (!o.p) {
                if (k >= 80) { if (!o.threw_bad_alloc) G.fail("no-bad_alloc", std::string(what) + "(" + std::to_string(n) + ") came back empty without std::bad_alloc"); }
                else if (k >= 70) { if (o.rc != ENOMEM) G.fail("wrong-error-code", std::string(what) + " returned " + std::to_string(o.rc)); }
                else if (o.err != ENOMEM) G.fail("wrong-errno", std::string(what) + "(" + std::to_string(n) + ") returned null with errno " + std::to_string(o.err));
            }
        } else {
            PoolLog& Lg = G.L[target];
            if (k < 70 || Lg.cxx) { what = "pool_malloc"; o = p_malloc(Lg, n); }
            else { what = "pool_aligned_malloc"; al = (size_t)1 << r.below(15); o = xp_aligned_malloc(Lg.pool, n, al); }
        }
        if (!o.p) {
            G.api_failures.fetch_add(1, std::memory_order_relaxed);
            if (fixed) return;
            if (!armed) G.fail("still-failing-after-faults-stopped", std::string(what) + "(" + std::to_string(n) + ") on " + (target < 0 ? "the default allocator" : "pool " + std::to_string(target)) + " failed in the phase in which nothing is refused (thread " + std::to_string(me) + ")");
            else if (fired_now() == f0) G.fails_no_refusal_during_call.fetch_add(1, std::memory_order_relaxed);
            return;
        }
        G.api_success.fetch_add(1, std::memory_order_relaxed);
        uintptr_t a = (uintptr_t)o.p;
        if (al > 1 && (a & (al - 1))) G.fail("misaligned", std::string(what) + " returned " + hexs(a) + ", not aligned to " + std::to_string(al));
        if (target >= 0) {
            PoolLog& Lg = G.L[target];
            if (!Lg.inside(a, a + n)) { G.fail("block-outside-own-raw-memory", std::string(what) + " on pool " + std::to_string(target) + " returned " + hexs(a) + "+" + std::to_string(n) + " outside the regions of its own raw allocator"); return; }
            rml::MemoryPool* id = xp_identify(o.p); if (id != Lg.pool) G.fail("pool_identify-wrong-pool", "pool_identify(" + hexs(a) + ") names " + hexs((uintptr_t)id) + " instead of pool " + std::to_string(target));
            if (xp_msize(Lg.pool, o.p) < n) { G.fail("msize-too-small", "pool_msize below the requested size"); return; }
        } else {
            for (int s = 0; s < MtShared::kPools; s++) if (G.L[s].alive && G.L[s].inside(a, a + 1)) G.fail("default-block-inside-pool-memory", std::string(what) + " returned an address inside raw memory of pool " + std::to_string(s));
            if (x_msize(o.p) < n) { G.fail("msize-too-small", "scalable_msize below the requested size"); return; }
            if (k >= 45 && k < 55) { for (size_t i = 0; i < n; i += (n > 8192 ? 509 : 1)) if (((unsigned char*)o.p)[i]) { G.fail("calloc-not-zero", "calloc returned dirty memory"); break; } }
        }
        Blk b; b.p = (unsigned char*)o.p; b.n = n; b.id = next_id++; b.align = al; b.pool = target;
        fill(b.p, b.n, b.id); mine.push_back(b);
    }
    void reallocate(bool armed) {
        if (mine.empty()) return request(armed);
        size_t j = r.below(mine.size()); Blk old = mine[j];
        if (old.pool >= 0 && !G.L[old.pool].alive) return;
        bool fixed = old.pool >= 0 && G.L[old.pool].fixed;
        size_t n = pick_n(old.pool >= 0, fixed); size_t al = r.chance(1, 4) && !(old.pool >= 0 && G.L[old.pool].cxx) ? (size_t)1 << r.below(13) : 0;
        long f0 = fired_now();
        Out o = old.pool < 0 ? (al ? x_aligned_realloc(old.p, n, al) : x_realloc(old.p, n)) : (al ? xp_aligned_realloc(G.L[old.pool].pool, old.p, n, al) : p_realloc(G.L[old.pool], old.p, n));
        if (!o.p) {
            G.api_failures.fetch_add(1, std::memory_order_relaxed);
            if (old.pool < 0 && o.err != ENOMEM) G.fail("wrong-errno", "a failed realloc left errno " + std::to_string(o.err));
            check(old, "after a failed realloc");
            if (fixed) return;
            if (!armed) G.fail("still-failing-after-faults-stopped", "realloc(" + std::to_string(old.n) + " -> " + std::to_string(n) + ") failed in the phase in which nothing is refused");
            else if (fired_now() == f0) G.fails_no_refusal_during_call.fetch_add(1, std::memory_order_relaxed);
            return;
        }
        G.api_success.fetch_add(1, std::memory_order_relaxed);
        long d = first_damage(o.p, old.n, old.id, std::min(old.n, n));
        if (d >= 0) G.fail("realloc-lost-content", "realloc(" + std::to_string(old.n) + " -> " + std::to_string(n) + ") succeeded but byte " + std::to_string(d) + " of the kept prefix differs (thread " + std::to_string(me) + ")");
        uintptr_t a = (uintptr_t)o.p;
        if (al > 1 && (a & (al - 1))) G.fail("misaligned", "aligned realloc returned " + hexs(a) + ", not aligned to " + std::to_string(al));
        if (old.pool >= 0 && !G.L[old.pool].inside(a, a + n)) { G.fail("block-outside-own-raw-memory", "pool realloc returned a block outside the regions of the pool's raw allocator"); mine[j] = mine.back(); mine.pop_back(); return; }
        Blk b = old; b.p = (unsigned char*)o.p; b.n = n; b.id = next_id++; b.align = al; fill(b.p, b.n, b.id); mine[j] = b;
    }
    void free_one() { if (mine.empty()) return; size_t j = r.below(mine.size()); Blk b = mine[j]; mine[j] = mine.back(); mine.pop_back(); release(b, "before free"); }
    void hand_over() {              // pass a block to whoever comes by; free what somebody else left there (cross-thread free)
        if (mine.empty()) return;
        size_t j = r.below(mine.size()); Blk* nb = new Blk(mine[j]); mine[j] = mine.back(); mine.pop_back();
        Blk* got = G.mailbox[r.below(32)].exchange(nb, std::memory_order_acq_rel);
        if (got) { release(*got, "before a cross-thread free"); delete got; G.cross_frees.fetch_add(1, std::memory_order_relaxed); }
    }
    void phase(bool armed, int nops) {
        for (int i = 0; i < nops; i++) {
            unsigned k = (unsigned)r.below(100);
            if (k < 50) request(armed); else if (k < 62) reallocate(armed); else if (k < 85) free_one(); else hand_over();
            vrt::progress();
            if (G.violations.load(std::memory_order_relaxed) > 3) break;
        }
    }
    void settle() {                 // phase B: everything the thread owns is intact; memory is available again
        for (auto& b : mine) check(b, "after the faulty phase");
        for (int i = 0; i < 8; i++) request(false);
        size_t keep = mine.size() / 2;
        while (mine.size() > keep) free_one();
        int fs = G.forget_slot.load();
        if (fs >= 0) for (size_t i = 0; i < mine.size();) { if (mine[i].pool == fs) { check(mine[i], "before pool_reset/pool_destroy"); mine[i] = mine.back(); mine.pop_back(); } else i++; }
        vrt::progress();
    }
};

inline MtShared* g_mt = nullptr;
inline void mt_problem(const char* key, const std::string& detail) { if (g_mt) g_mt->fail(key, detail); }

inline void mt_child(Child& C, uint64_t seed, const MtCfg& cfg) {
    auto GP = std::make_unique<MtShared>(); MtShared& G = *GP; G.C = &C; g_mt = &G; g_problem = mt_problem;
    for (auto& m : G.mailbox) m.store(nullptr);
    for (int i = 0; i < MtShared::kPools; i++) G.L[i].slot = i;
    g_track_os.store(false); g_pool_block_live = nullptr; g_live_overlap = nullptr;
    Rng r(mix(seed, 0x3001));
    int T = 2 + (int)r.below((uint64_t)cfg.threads_max - 1);
    G.nops = 60 + (int)r.below(240);
    auto make_pool = [&](int s) {
        int v = s == 2 ? PV_RML_FIXED : (int)r.pick(std::vector<int>{ PV_RML, PV_RML_GRAN, PV_RML_KEEP, PV_CXX_CHAR, PV_CXX_A64 });
        size_t param = v == PV_RML_FIXED ? (size_t)(4 + r.below(12)) * MB : v == PV_RML_GRAN ? r.pick(std::vector<size_t>{ 4096, 65536, MB }) : 0;
        const char* pk = nullptr; std::string e = pool_create(G.L[s], v, param, &pk);
        if (pk) G.fail(pk, e); else if (!e.empty()) G.fail("setup", "pool creation refused with nothing armed");
    };
    for (int s = 0; s < MtShared::kPools; s++) make_pool(s);
    vrt::Barrier bar(T + 1);
    std::vector<std::unique_ptr<MtThread>> th; std::vector<std::thread> ts;
    for (int i = 0; i < T; i++) th.emplace_back(new MtThread(G, i, seed));
    for (int i = 0; i < T; i++) ts.emplace_back([&, i] {
        MtThread& me = *th[i];
        for (;;) {
            bar.wait();                                   // round start (plan armed)
            if (G.stop.load()) break;
            me.phase(G.phase_armed.load() != 0, G.nops);
            bar.wait();                                   // all threads outside the allocator: the coordinator disarms
            bar.wait();
            me.settle();
            bar.wait();                                   // quiescent point
        }
        for (auto& b : me.mine) me.release(b, "at thread exit");
        me.mine.clear();
    });
    long rounds_done = 0, rounds_nontrivial = 0;
    for (int round = 0; round < cfg.rounds && G.violations.load() <= 3; round++) {
        note_op(round, "round %d: %d threads x %d operations", round, T, G.nops);
        FaultPlan mp, rp;
        auto choose = [&](Injector& inj, FaultPlan& p) {
            unsigned k = (unsigned)r.below(100);
            if (k < 12) return;                            // nothing refused from this source
            if (k < 60) { p.kind = FaultPlan::PROB; static const std::vector<uint32_t> pr = { 65536 / 200, 65536 / 50, 65536 / 12, 65536 / 4, 65536 / 2, 65536 }; p.prob = r.pick(pr); }
            else { p.kind = FaultPlan::RANGE; p.from = inj.calls.load() + 1 + (long)r.below(30); p.to = r.chance(1, 4) ? LONG_MAX : p.from + (long)r.below(12); }
        };
        choose(g_map_inj, mp); choose(g_raw_inj, rp);
        bool control = mp.kind == FaultPlan::NONE && rp.kind == FaultPlan::NONE;
        long f0 = g_map_inj.fired.load() + g_raw_inj.fired.load(), fc0 = g_map_inj.fired_concurrent.load() + g_raw_inj.fired_concurrent.load();
        int l0 = g_map_inj.nlog.load(), l1 = g_raw_inj.nlog.load();
        long fail0 = G.api_failures.load();
        g_map_inj.arm(mp); g_raw_inj.arm(rp); G.phase_armed.store(control ? 0 : 1);
        int fs = -1; if (r.chance(1, 3)) fs = (int)r.below(MtShared::kPools);
        G.forget_slot.store(fs);
        bar.wait();                                        // threads run phase A
        bar.wait();
        g_map_inj.disarm(); g_raw_inj.disarm(); G.phase_armed.store(0);
        long fired = g_map_inj.fired.load() + g_raw_inj.fired.load() - f0, firedc = g_map_inj.fired_concurrent.load() + g_raw_inj.fired_concurrent.load() - fc0;
        if (control && G.api_failures.load() != fail0) { /* fixed-pool exhaustion is not counted as failure of a growable source: request() returns early for it */ }
        bar.wait();                                        // threads run phase B
        bar.wait();
        // quiescent: no thread is inside the allocator
        rounds_done++; if (firedc > 0) rounds_nontrivial++;
        uint64_t sig = mix((uint64_t)T, (uint64_t)fired);
        for (int i = l0; i < std::min(g_map_inj.nlog.load(), Injector::kLog); i++) sig = mix(sig, mix((uint64_t)g_map_inj.log[i].thread, (uint64_t)g_map_inj.log[i].others_inside));
        for (int i = l1; i < std::min(g_raw_inj.nlog.load(), Injector::kLog); i++) sig = mix(sig, mix(100 + (uint64_t)g_raw_inj.log[i].thread, (uint64_t)g_raw_inj.log[i].others_inside));
        if (firedc > 0) C.signature(sig);
        if (g_map_inj.nlog.load() > Injector::kLog - 8) g_map_inj.nlog.store(0);
        if (g_raw_inj.nlog.load() > Injector::kLog - 8) g_raw_inj.nlog.store(0);
        if (fs >= 0 && G.L[fs].alive) {
            // blocks of that pool still parked in the mailbox are dropped as well
            for (auto& m : G.mailbox) { Blk* b = m.load(); if (b && b->pool == fs) { m.store(nullptr); delete b; } }
            if (r.chance(1, 2)) {
                note_op(round, "round %d: pool_reset(pool %d)", round, fs);
                if (!p_reset(G.L[fs])) G.fail("pool_reset-failed", "pool_reset returned false with nothing refused"); C.stat("M_pool_resets");
            } else {
                note_op(round, "round %d: pool_destroy(pool %d)", round, fs);
                const char* pk = nullptr; std::string e = pool_kill(G.L[fs], &pk); if (pk) G.fail(pk, e); C.stat("M_pool_destroys");
                make_pool(fs);
            }
        }
        if (r.chance(1, 5)) { note_op(round, "round %d: CLEAN_ALL_BUFFERS", round); x_command(TBBMALLOC_CLEAN_ALL_BUFFERS); }
        vrt::progress();
    }
    G.stop.store(true); G.forget_slot.store(-1);
    note_op(cfg.rounds, "threads free their blocks and exit");
    bar.wait();
    for (auto& t : ts) t.join();
    for (auto& m : G.mailbox) if (Blk* b = m.exchange(nullptr)) { th[0]->release(*b, "mailbox drain"); delete b; }
    note_op(cfg.rounds + 1, "pools destroyed");
    for (int s = 0; s < MtShared::kPools; s++) if (G.L[s].alive) { const char* pk = nullptr; std::string e = pool_kill(G.L[s], &pk); if (pk) G.fail(pk, e); }
    x_command(TBBMALLOC_CLEAN_ALL_BUFFERS);
    Out z = x_malloc(5 * MB); if (!z.p) G.fail("still-failing-after-faults-stopped", "malloc(5 MB) fails at the end"); else x_free(z.p);
    C.stat("rounds_done", rounds_done); C.stat("rounds_nontrivial", rounds_nontrivial);
    C.stat("M_rounds", rounds_done); C.stat("M_rounds_with_refusal_while_other_thread_inside", rounds_nontrivial);
    C.stat("M_thread_rounds", rounds_done * T);
    C.stat("M_refusals_fired", g_map_inj.fired.load() + g_raw_inj.fired.load());
    C.stat("M_refusals_fired_while_other_thread_inside_allocator", g_map_inj.fired_concurrent.load() + g_raw_inj.fired_concurrent.load());
    C.stat("M_mapping_calls", g_map_inj.calls.load()); C.stat("M_raw_callback_calls", g_raw_inj.calls.load());
    C.stat("M_requests_that_reported_failure", G.api_failures.load()); C.stat("M_requests_that_succeeded", G.api_success.load());
    C.stat("M_cross_thread_frees", G.cross_frees.load());
    C.stat("M_failures_without_a_refusal_during_the_same_call(observation)", G.fails_no_refusal_during_call.load());
    if (C.sample.empty()) { Json j; j.obj(); j.kv("class", "M"); j.kv("child_seed", vrt::hex64(seed)); j.kv("threads", T); j.kv("operations_per_thread_and_round", G.nops); j.kv("rounds", (long long)rounds_done);
        j.kv("refusals_fired", (long long)(g_map_inj.fired.load() + g_raw_inj.fired.load())); j.kv("fired_while_another_thread_was_inside_the_allocator", (long long)(g_map_inj.fired_concurrent.load() + g_raw_inj.fired_concurrent.load()));
        j.kv("requests_that_reported_failure", (long long)G.api_failures.load()); j.kv("cross_thread_frees", (long long)G.cross_frees.load()); j.end_obj(); C.sample = j.s; }
}

inline void run_mt(Runner& P, const MtCfg& cfg, Rng& top) {
    vrt::Result& R = vrt::result();
    for (long c = 0; c < cfg.children; c++) {
        uint64_t seed = top.next();
        std::string scen; { Json j; j.obj(); j.kv("class", "M"); j.kv("child_seed", vrt::hex64(seed)); j.kv("rounds", cfg.rounds); j.kv("threads_max", cfg.threads_max); j.end_obj(); scen = j.s; }
        Report rep = P.run([&](Child& C) { g_scenario_json = scen; mt_child(C, seed, cfg); });
        P.absorb(rep, scen);
        R.scenarios += rep.done ? (long)rep.st("rounds_done") : 1; R.nontrivial += (long)rep.st("rounds_nontrivial");
        for (auto h : rep.sigs) R.signature(h);
        if (R.want_sample() && !rep.sample.empty() && (c % 3) == 0) R.sample(rep.sample);
    }
}

} // namespace c18
