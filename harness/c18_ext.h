// C18 class X: the extreme-argument table. Every row (entry point x size x alignment x kind of block being reallocated)
// runs in a process of its own; a crash or an assertion of the debug allocator is that row's recorded outcome.
#pragma once
#include "c18_pool.h"

namespace c18 {

enum XEntry { X_MALLOC, X_CALLOC, X_AMALLOC, X_PMEMALIGN, X_REALLOC, X_AREALLOC, X_ALLOCATOR1, X_ALLOCATOR48, X_PMR, X_POOL_MALLOC, X_POOL_AMALLOC, X_POOL_REALLOC, X_POOL_AREALLOC, X_FIXED_MALLOC, X_FIXED_AMALLOC, X_POOL_ALLOCATOR, X_ENTRIES };
static const char* const xentry_names[] = { "scalable_malloc", "scalable_calloc", "scalable_aligned_malloc", "scalable_posix_memalign", "scalable_realloc", "scalable_aligned_realloc", "scalable_allocator<char>::allocate", "scalable_allocator<48 bytes>::allocate", "scalable_memory_resource::allocate", "pool_malloc", "pool_aligned_malloc", "pool_realloc", "pool_aligned_realloc", "fixed pool_malloc", "fixed pool_aligned_malloc", "memory_pool_allocator<48 bytes>::allocate" };
enum XKind { K_NONE, K_SMALL, K_SLABMAX, K_LARGE, K_REGION, K_HUGE, K_ALIGNED_SMALL, K_ALIGNED_LARGE, K_KINDS };
static const char* const xkind_names[] = { "-", "small slab object (100 B)", "largest slab object (8128 B)", "large cached object (100000 B)", "object owning its region (3 MB)", "huge object (64 MB + 1)", "aligned small object (100 B at 4096)", "aligned large object (200000 B at 1 MB)" };
struct Row { int entry; size_t size; size_t align; int kind; size_t unit; };

inline const std::vector<size_t>& x_sizes() {
    static const size_t M = SIZE_MAX;
    static const std::vector<size_t> v = { 0, 1, 8, 9, 64, 65, 1024, 1025, 8128, 8129, 16384, (size_t)1 << 20, (size_t)64 << 20, ((size_t)64 << 20) + 1, (size_t)1 << 32, (size_t)1 << 40, (size_t)1 << 47, (size_t)1 << 62,
        M / 2, M / 2 + 1, M - ((size_t)1 << 30), M - ((size_t)1 << 21), M - ((size_t)1 << 20), M - 8192, M - 4096, M - 1024, M - 128, M - 64, M - 63, M - 16, M - 8, M - 1, M };
    return v;
}
inline const std::vector<size_t>& x_aligns(bool full) {
    static const std::vector<size_t> all = { 0, 1, 2, 3, 8, 16, 64, 4096, (size_t)1 << 20, (size_t)1 << 30, (size_t)1 << 31, (size_t)1 << 40, (size_t)1 << 62, (size_t)1 << 63, SIZE_MAX };
    static const std::vector<size_t> few = { 0, 3, 64, 4096, (size_t)1 << 30, (size_t)1 << 63 };
    return full ? all : few;
}

inline std::vector<Row> x_table(bool full) {
    std::vector<Row> t;
    const auto& S = x_sizes(); const auto& A = x_aligns(true); const auto& Ar = x_aligns(full);
    for (size_t s : S) t.push_back({ X_MALLOC, s, 0, K_NONE, 0 });
    for (size_t n : S) for (size_t u : { (size_t)1, (size_t)2, (size_t)3, (size_t)16, (size_t)1 << 16, (size_t)1 << 32, (size_t)1 << 33, SIZE_MAX / 2, SIZE_MAX }) {
        unsigned __int128 prod = (unsigned __int128)n * u;
        // a representable product between 128 MB and 2^47 could really be mapped and calloc would then zero all of it: not a failure path, skipped
        if (prod > ((unsigned __int128)128 << 20) && prod < ((unsigned __int128)1 << 47)) continue;
        t.push_back({ X_CALLOC, n, 0, K_NONE, u });
    }
    for (size_t a : A) for (size_t s : S) { t.push_back({ X_AMALLOC, s, a, K_NONE, 0 }); t.push_back({ X_PMEMALIGN, s, a, K_NONE, 0 }); }
    for (int k = K_SMALL; k < K_KINDS; k++) for (size_t s : S) t.push_back({ X_REALLOC, s, 0, k, 0 });
    for (int k = K_SMALL; k < K_KINDS; k++) for (size_t a : Ar) for (size_t s : S) t.push_back({ X_AREALLOC, s, a, k, 0 });
    for (size_t s : S) { t.push_back({ X_ALLOCATOR1, s, 0, K_NONE, 1 }); t.push_back({ X_ALLOCATOR48, s, 0, K_NONE, 48 }); t.push_back({ X_POOL_ALLOCATOR, s, 0, K_NONE, 48 }); }
    for (size_t a : A) if (pow2(a)) for (size_t s : S) if (s) t.push_back({ X_PMR, s, a, K_NONE, 0 });
    for (size_t s : S) { t.push_back({ X_POOL_MALLOC, s, 0, K_NONE, 0 }); t.push_back({ X_FIXED_MALLOC, s, 0, K_NONE, 0 }); }
    for (size_t a : A) for (size_t s : S) t.push_back({ X_POOL_AMALLOC, s, a, K_NONE, 0 });
    for (size_t a : Ar) for (size_t s : S) t.push_back({ X_FIXED_AMALLOC, s, a, K_NONE, 0 });
    for (int k : { K_SMALL, K_LARGE, K_REGION }) for (size_t s : S) t.push_back({ X_POOL_REALLOC, s, 0, k, 0 });
    for (int k : { K_SMALL, K_LARGE, K_REGION }) for (size_t a : Ar) for (size_t s : S) t.push_back({ X_POOL_AREALLOC, s, a, k, 0 });
    return t;
}
inline std::string row_json(const Row& r) {
    Json j; j.obj(); j.kv("class", "X"); j.kv("entry", xentry_names[r.entry]);
    if (r.entry == X_CALLOC) { j.kv("nobj", szs(r.size)); j.kv("size", szs(r.unit)); }
    else if (r.unit) { j.kv("count", szs(r.size / r.unit)); j.kv("unit", (long long)r.unit); }
    else j.kv("size", szs(r.size));
    if (r.entry == X_AMALLOC || r.entry == X_PMEMALIGN || r.entry == X_AREALLOC || r.entry == X_PMR || r.entry == X_POOL_AMALLOC || r.entry == X_POOL_AREALLOC || r.entry == X_FIXED_AMALLOC) j.kv("alignment", szs(r.align));
    if (r.kind) j.kv("block_being_reallocated", xkind_names[r.kind]);
    j.end_obj(); return j.s;
}

// runs in the child; returns the outcome label
inline std::string run_row(Child& C, const Row& r) {
    auto fail = [&](const std::string& what, const std::string& detail) { C.violation(cls_key('X', what), std::string(xentry_names[r.entry]) + ": " + detail, g_scenario_json); };
    bool is_pool = r.entry >= X_POOL_MALLOC;
    bool fixed = r.entry == X_FIXED_MALLOC || r.entry == X_FIXED_AMALLOC;
    auto LP = std::make_unique<PoolLog>(); PoolLog& L = *LP;
    if (is_pool) {
        const char* pk = nullptr;
        std::string e = pool_create(L, fixed ? PV_RML_FIXED : r.entry == X_POOL_ALLOCATOR ? PV_CXX_CHAR : PV_RML, fixed ? 4 * MB : 0, &pk);
        if (!e.empty()) { fail("setup", "could not create the pool: " + e); return "setup-failed"; }
    }
    // bystanders that must stay intact
    struct By { void* p; size_t n; uint32_t id; };
    std::vector<By> by;
    for (size_t n : { (size_t)100, (size_t)20000 }) {
        Out o = is_pool ? p_malloc(L, n) : x_malloc(n);
        if (!o.p) { fail("setup", "bystander allocation failed"); return "setup-failed"; }
        fill(o.p, n, (uint32_t)n); by.push_back({ o.p, n, (uint32_t)n });
    }
    // the block being reallocated
    void* old = nullptr; size_t old_n = 0; const uint32_t old_id = 777;
    if (r.kind) {
        size_t al = 0;
        switch (r.kind) { case K_SMALL: old_n = 100; break; case K_SLABMAX: old_n = 8128; break; case K_LARGE: old_n = 100000; break; case K_REGION: old_n = 3 * MB; break; case K_HUGE: old_n = 64 * MB + 1; break;
                          case K_ALIGNED_SMALL: old_n = 100; al = 4096; break; default: old_n = 200000; al = MB; }
        Out o = is_pool ? p_malloc(L, old_n) : al ? x_aligned_malloc(old_n, al) : x_malloc(old_n);
        if (!o.p) { fail("setup", "could not allocate the block to be reallocated (" + std::to_string(old_n) + " bytes)"); return "setup-failed"; }
        old = o.p; fill(old, old_n, old_id);
    }
    vrt::progress();
    size_t s = r.size, a = r.align;
    size_t bytes = s;                           // what the caller asked for, in bytes (SIZE_MAX+ if it overflows)
    bool overflow = false;
    if (r.entry == X_CALLOC) { unsigned __int128 p = (unsigned __int128)s * r.unit; overflow = p > SIZE_MAX; bytes = overflow ? SIZE_MAX : (size_t)p; }
    if (r.unit && r.entry != X_CALLOC) bytes = (s / r.unit) * r.unit;
    note_op(0, "%s", g_scenario_json.c_str());
    Out o; std::string label; bool freed_old = false;
    bool a_ok = pow2(a);
    switch (r.entry) {
    case X_MALLOC: o = x_malloc(s); break;
    case X_CALLOC: o = x_calloc(s, r.unit); break;
    case X_AMALLOC: o = x_aligned_malloc(s, a); break;
    case X_PMEMALIGN: o = x_posix_memalign(a, s); break;
    case X_REALLOC: o = x_realloc(old, s); break;
    case X_AREALLOC: o = x_aligned_realloc(old, s, a); break;
    case X_ALLOCATOR1: o = x_allocator<char>(s); break;
    case X_ALLOCATOR48: o = x_allocator<A48>(s / 48); break;
    case X_PMR: o = x_pmr(s, a); break;
    case X_POOL_MALLOC: case X_FIXED_MALLOC: o = xp_malloc(L.pool, s); break;
    case X_POOL_AMALLOC: case X_FIXED_AMALLOC: o = xp_aligned_malloc(L.pool, s, a); break;
    case X_POOL_REALLOC: o = xp_realloc(L.pool, old, s); break;
    case X_POOL_AREALLOC: o = xp_aligned_realloc(L.pool, old, s, a); break;
    default: o = cxx_allocator_allocate(L, s / 48); break;
    }
    vrt::progress();
    bool cxx = r.entry == X_ALLOCATOR1 || r.entry == X_ALLOCATOR48 || r.entry == X_PMR || r.entry == X_POOL_ALLOCATOR;
    bool is_realloc = r.entry == X_REALLOC || r.entry == X_AREALLOC || r.entry == X_POOL_REALLOC || r.entry == X_POOL_AREALLOC;
    bool takes_align = r.entry == X_AMALLOC || r.entry == X_PMEMALIGN || r.entry == X_AREALLOC || r.entry == X_PMR || r.entry == X_POOL_AMALLOC || r.entry == X_FIXED_AMALLOC || r.entry == X_POOL_AREALLOC;
    // invalid-argument rows: what the entry point documents / has always answered
    bool invalid = false;
    if (r.entry == X_AMALLOC || r.entry == X_POOL_AMALLOC || r.entry == X_FIXED_AMALLOC) invalid = !a_ok || s == 0;
    else if (r.entry == X_PMEMALIGN) invalid = !a_ok || (a % sizeof(void*)) != 0;
    else if (r.entry == X_AREALLOC || r.entry == X_POOL_AREALLOC) invalid = !a_ok;
    bool frees = is_realloc && !invalid && s == 0;      // realloc(p, 0) is free(p)
    if (o.p) {
        label = "block";
        uintptr_t p = (uintptr_t)o.p;
        if (invalid) fail("accepted-invalid-argument", "returned a block for arguments it must reject (" + g_scenario_json + ")");
        else if (frees) fail("realloc-zero-returned-block", "size 0 returned a block");
        else if (overflow) fail("block-for-unrepresentable-size", "nobj*size overflows size_t and a block " + hexs(p) + " was returned");
        else if (bytes >= kUnmappable) fail("block-for-unrepresentable-size", "a block " + hexs(p) + " was returned for " + szs(bytes) + " bytes, more than any mapping can hold");
        else {
            if (o.threw_bad_alloc || o.threw_other) fail("exception-and-result", "threw and returned");
            if (takes_align && a > 1 && (p & (a - 1))) fail("misaligned", "returned " + hexs(p) + ", not aligned to " + szs(a));
            size_t ms = is_pool ? xp_msize(L.pool, o.p) : x_msize(o.p);
            if (ms < bytes) fail("msize-too-small", "msize of the returned block is " + szs(ms) + " for a request of " + szs(bytes));
            else {
                for (auto& b : by) if (p < (uintptr_t)b.p + b.n && (uintptr_t)b.p < p + std::max<size_t>(bytes, 1)) fail("overlaps-live-block", "the returned block " + hexs(p) + "+" + szs(bytes) + " overlaps a live block");
                if (is_pool && !L.inside(p, p + std::max<size_t>(bytes, 1))) fail("block-outside-own-raw-memory", "the returned block " + hexs(p) + "+" + szs(bytes) + " is not inside the pool's raw memory");
                if (is_pool && xp_identify(o.p) != L.pool) fail("pool_identify-wrong-pool", "pool_identify names another pool");
                if (is_realloc) {
                    long d = first_damage(o.p, old_n, old_id, std::min(old_n, bytes));
                    if (d >= 0) fail("realloc-lost-content", "byte " + std::to_string(d) + " of the kept prefix differs after a successful realloc to " + szs(bytes));
                    freed_old = true;
                } else if (r.entry == X_CALLOC) { for (size_t i = 0; i < bytes && i < 4096; i++) if (((char*)o.p)[i]) { fail("calloc-not-zero", "non-zero byte in calloc'ed memory"); break; } }
                if (bytes) { volatile char* q = (volatile char*)o.p; q[0] = 1; q[bytes - 1] = 2; }       // the whole extent must be real memory
            }
        }
        if (o.err != 0) C.stat("X_errno_changed_by_successful_call");
    } else {
        // empty-handed: the way of saying so
        if (cxx) { label = o.threw_bad_alloc ? "bad_alloc" : "no exception"; if (!o.threw_bad_alloc) fail("no-bad_alloc", o.threw_other ? "threw something that is not std::bad_alloc" : "returned null without throwing"); }
        else if (r.entry == X_PMEMALIGN) {
            label = o.rc == ENOMEM ? "ENOMEM" : o.rc == EINVAL ? "EINVAL" : "rc=" + std::to_string(o.rc);
            if (o.rc <= -1000) fail("wrote-result-on-failure", "stored into *memptr although it returned error " + std::to_string(-1000 - o.rc));
            else if (invalid ? o.rc != EINVAL : o.rc != ENOMEM) fail("wrong-error-code", "returned " + std::to_string(o.rc) + ", expected " + (invalid ? "EINVAL" : "ENOMEM"));
            if (o.err != 0) C.stat("X_errno_changed_by_posix_memalign");
        } else if (is_pool) label = "null";
        else if (frees) { label = "freed"; }
        else {
            label = o.err == ENOMEM ? "null+ENOMEM" : o.err == EINVAL ? "null+EINVAL" : "null+errno" + std::to_string(o.err);
            if (invalid ? o.err != EINVAL : o.err != ENOMEM) fail("wrong-errno", "returned null with errno " + std::to_string(o.err) + ", expected " + (invalid ? "EINVAL" : "ENOMEM"));
        }
        if (frees) freed_old = true;
        // a modest, well-formed request must not be refused: memory is available
        size_t need = bytes + (takes_align && a_ok ? a : 0);
        if (!invalid && !frees && !overflow && !fixed && bytes <= 64 * MB + 1 && (!takes_align || a <= MB) && need >= bytes) fail("fails-without-refusal", "a request of " + szs(bytes) + " bytes" + (takes_align ? " aligned to " + szs(a) : "") + " was refused although memory is available");
        // a failed realloc leaves the block alone
        if (is_realloc && !frees) {
            long d = first_damage(old, old_n, old_id);
            if (d >= 0) fail("failed-realloc-damaged-block", "the block lost its pattern at offset " + std::to_string(d) + " after a failed realloc to " + szs(s));
            size_t ms = is_pool ? xp_msize(L.pool, old) : x_msize(old);
            if (ms < old_n) fail("failed-realloc-damaged-block", "msize of the block is " + szs(ms) + " after a failed realloc to " + szs(s) + ", it holds " + std::to_string(old_n) + " bytes");
        }
    }
    for (auto& b : by) { long d = first_damage(b.p, b.n, b.id); if (d >= 0) fail("live-block-damaged", "a bystander block of " + std::to_string(b.n) + " bytes lost its pattern at offset " + std::to_string(d)); }
    // everything can be given back and the allocator still works
    note_op(1, "cleanup after %s", g_scenario_json.c_str());
    if (o.p && !o.threw_bad_alloc) { if (is_pool) p_free(L, o.p); else x_free(o.p); }
    if (old && !freed_old) { if (is_pool) p_free(L, old); else if (r.kind >= K_ALIGNED_SMALL) x_aligned_free(old); else x_free(old); }
    for (auto& b : by) { if (is_pool) p_free(L, b.p); else x_free(b.p); }
    vrt::progress();
    if (is_pool) {
        if (!fixed) { Out z = p_malloc(L, 70000); if (!z.p) fail("still-failing-after-faults-stopped", "the pool cannot serve 70000 bytes after the row"); else { if (!L.inside((uintptr_t)z.p, (uintptr_t)z.p + 70000)) fail("block-outside-own-raw-memory", "block outside the pool's raw memory after the row"); p_free(L, z.p); } }
        const char* pk = nullptr; std::string e = pool_kill(L, &pk); if (pk) fail(pk, e);
    }
    Out z = x_malloc(5 * MB); if (!z.p) fail("still-failing-after-faults-stopped", "malloc(5 MB) fails after the row"); else { memset(z.p, 1, 4096); x_free(z.p); }
    x_command(TBBMALLOC_CLEAN_ALL_BUFFERS);
    C.stat("X_rows_completed");
    return label;
}

inline void run_ext_table(Runner& P, int shard, int nshards, bool full, const std::string& only) {
    vrt::Result& R = vrt::result();
    std::vector<Row> table = x_table(full);
    R.stat_max("max_X_rows_in_table", (long long)table.size());
    g_problem = nullptr;
    for (size_t i = 0; i < table.size(); i++) {
        if ((int)(i % (size_t)nshards) != shard) continue;
        const Row& r = table[i];
        if (!only.empty() && only != xentry_names[r.entry]) continue;
        std::string scen = row_json(r);
        std::string label;
        Report rep = P.run([&](Child& C) { g_scenario_json = scen; g_pool_block_live = nullptr; std::string l = run_row(C, r); C.stat(std::string("L|") + l); });
        P.absorb(rep, scen); R.scenarios++;
        for (auto& kv : rep.stats) if (kv.first.rfind("L|", 0) == 0) label = kv.first.substr(2);
        if (label.empty()) label = rep.term_sig ? std::string("crash ") + signame(rep.term_sig) : "no outcome";
        if (!rep.viols.empty()) label += " (violation)";
        R.stat(std::string("X|") + xentry_names[r.entry] + "|" + label);
        if (label != "block") R.nontrivial++;
        R.signature(mix(mix((uint64_t)r.entry, r.size), mix(mix(r.align, (uint64_t)r.kind), mix(r.unit, std::hash<std::string>()(label)))));
        bool extreme = r.size >= ((size_t)1 << 40) || (r.align >= ((size_t)1 << 30));
        if (R.want_sample() && extreme && r.kind != K_NONE && (i % 97) < 3) { Json j; j.obj(); j.key("row").raw(scen); j.kv("outcome", label); j.end_obj(); R.sample(j.s); }
    }
}

} // namespace c18
