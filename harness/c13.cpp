// C13: concurrent_priority_queue is a linearizable priority queue.
//
// Modes (--mode): mix (default: L K G S in rotation), L (short histories, WGL against a multiset model), S (long stress
// histories, O(n log n) aspect checks), K (throwing copy construction in push(const T&), element with non-throwing move;
// strict), G (copy-only element whose copy from the caller's object throws: always inside the guarded push_back; strict),
// A (any copy/move the handler performs: throwing move assignment, or copy-only element with a throwing copy constructor at
// any site). Class A contains the known defect cpq.throw-outside-guarded-push_back-wedges-handler, which wedges the process;
// it runs in processes of its own and the wedge becomes a verdict through the watchdog (spin-stall / quiescence) plus the
// harness-side predicate "a thread is inside push/try_pop (operations that never block by contract)", never by a timeout.
#define VRT_IMPL
#include "vrt.h"
#include "wgl.h"
#include <oneapi/tbb/concurrent_priority_queue.h>
#include <oneapi/tbb/global_control.h>
#include <csignal>
#include <new>

using namespace vrt;

namespace c13 {

// ------------------------------------------------------------------------------------------------ operations and values
enum Kind { K_PUSH = 0, K_PUSH_RV, K_EMPLACE, K_TRY_POP, K_DRAIN, K_NKINDS };
static const char* const kind_names[] = { "push", "push_rv", "emplace", "try_pop", "drain" };
// results: pushes RS_OK or an exception code; try_pop: value >= 0, RS_EMPTY or an exception code
constexpr long RS_OK = 1, RS_EMPTY = -1, RS_BADALLOC = -2, RS_BOOM = -3, RS_OTHER_EXC = -4, RS_CORRUPT = -6, RS_MOVED_FROM = -7, RS_SRC_MODIFIED = -8;
inline bool is_push(int k) { return k <= K_EMPLACE; }
inline bool is_exc(long r) { return r == RS_BADALLOC || r == RS_BOOM || r == RS_OTHER_EXC; }
// value = priority << 20 | unique id; the queue compares priorities only, so equal priorities are genuine ties
constexpr int kPrioShift = 20;
constexpr int kMaxPrio = 64;
inline long prio_of(long v) { return v >> kPrioShift; }
inline long mkval(long prio, long uid) { return (prio << kPrioShift) | uid; }
inline std::string vstr(long v) { return v < 0 ? std::to_string(v) : "p" + std::to_string(prio_of(v)) + "#" + std::to_string(v & ((1L << kPrioShift) - 1)); }

constexpr int kMaxT = 8;                 // pool threads; index kMaxT is the coordinator (main thread)
static thread_local int tl_tid = kMaxT;
static bool g_light = false;             // tsan variant: no global stamps, no shared execution log

// Addresses of the caller-side objects of the operations in flight: the object a push copies/moves from, the object a
// try_pop assigns to. An element copy/move whose source/destination is such an object is performed on behalf of exactly
// that caller's operation; every other copy/move is internal maintenance (reallocation, heapify, reheap).
struct Slots { std::atomic<const void*> push[kMaxT + 1], pop[kMaxT + 1]; Slots() { for (auto& p : push) p.store(nullptr); for (auto& p : pop) p.store(nullptr); } };
static Slots g_slots;
inline int owner_of(const std::atomic<const void*>* arr, const void* p) { for (int t = 0; t <= kMaxT; t++) if (arr[t].load(std::memory_order_relaxed) == p) return t; return -1; }
struct SlotSet { std::atomic<const void*>& s; SlotSet(std::atomic<const void*>& x, const void* p) : s(x) { s.store(p, std::memory_order_relaxed); } ~SlotSet() { s.store(nullptr, std::memory_order_relaxed); } };

// ------------------------------------------------------------------------------------------------ execution log (who ran what)
// The handler thread executes every operation of its batch. Element copies/moves attributed to an operation (see Slots) are
// logged together with a marker at the "handler about to grab the pending list" hook; handler exclusion makes the log between
// two markers exactly one batch (try_pops that found the queue empty touch no element and are not seen).
struct ExecEv { uint8_t type; int8_t owner, handler; long val; };    // type 0 batch marker, 1 push executed, 2 pop executed
struct ExecLog {
    static constexpr uint32_t kCap = 1u << 16;
    std::atomic<uint32_t> n{0}; std::atomic<bool> on{false};
    ExecEv* ev = new ExecEv[kCap];
    void add(uint8_t type, int owner, long val) { if (!on.load(std::memory_order_relaxed)) return; uint32_t i = n.fetch_add(1, std::memory_order_relaxed); if (i < kCap) ev[i] = ExecEv{ type, (int8_t)owner, (int8_t)tl_tid, val }; }
    void reset(bool enable) { n.store(0); on.store(enable); }
};
static ExecLog g_exec;

// ------------------------------------------------------------------------------------------------ fault injection
struct Boom { int id; };
enum Site { S_COPY_CTOR = 0, S_MOVE_CTOR, S_MOVE_ASSIGN, S_COPY_ASSIGN };
static const char* const site_names[] = { "copy-ctor", "move-ctor", "move-assign", "copy-assign" };
struct ThrowRec { std::atomic<int> site{0}, handler{0}, owner{-1}; std::atomic<long> val{0}; std::atomic<bool> ready{false}; };
struct Injector {
    std::atomic<bool> on{false};
    std::atomic<long> calls{0}, armed[2];
    std::atomic<int> filter{0};          // 1: only copies whose source is the caller-side object of a push (always inside the guarded push_back)
                                         // 2: only assignments into the caller-side object of a try_pop that another thread (the handler) executes
    std::atomic<int> nthrown{0};
    ThrowRec rec[4];
    Injector() { disarm(); }
    void disarm() { on.store(false); }
    void arm(long k0, long k1, int flt) { calls.store(0); armed[0].store(k0); armed[1].store(k1); filter.store(flt); nthrown.store(0); for (auto& r : rec) r.ready.store(false); on.store(k0 >= 0 || k1 >= 0); }
    int thrown() const { return std::min(nthrown.load(), 4); }
    void event(int site, int owner, long val) {
        if (!on.load(std::memory_order_relaxed)) return;
        int flt = filter.load(std::memory_order_relaxed);
        if (flt == 1 && !(site == S_COPY_CTOR && owner >= 0)) return;
        if (flt == 2 && !(site >= S_MOVE_ASSIGN && owner >= 0 && owner != tl_tid)) return;
        long c = calls.fetch_add(1, std::memory_order_relaxed);
        if (c != armed[0].load(std::memory_order_relaxed) && c != armed[1].load(std::memory_order_relaxed)) return;
        int id = nthrown.fetch_add(1);
        if (id < 4) { ThrowRec& r = rec[id]; r.site.store(site); r.handler.store(tl_tid); r.owner.store(owner); r.val.store(val); r.ready.store(true, std::memory_order_release); }
        throw Boom{ id };
    }
};
static Injector g_inj;

// Every element copy/move of every flavour passes here. Returns normally or throws Boom (only when `inject`).
inline void elem_op(int site, const void* src, const void* dst, long val, bool inject) {
    bool track = g_exec.on.load(std::memory_order_relaxed);
    bool armed = inject && g_inj.on.load(std::memory_order_relaxed);
    if (!track && !armed) return;
    int owner = -1;
    if (site == S_COPY_CTOR || site == S_MOVE_CTOR) { owner = owner_of(g_slots.push, src); if (track && owner >= 0) g_exec.add(1, owner, val); }
    else { owner = owner_of(g_slots.pop, dst); if (track && owner >= 0) g_exec.add(2, owner, val); }
    if (armed) g_inj.event(site, owner, val);
}

// ------------------------------------------------------------------------------------------------ element types
static std::atomic<long> g_live{0};      // constructed minus destroyed elements (all flavours)
constexpr long V_DEFAULT = -5, V_MOVED = -9;
struct EmplaceTag {};
enum Flavor { F_PLAIN = 0, F_K, F_AMOVE, F_ACOPY };
static const char* const flavor_names[] = { "plain(nothrow)", "K:throwing-copy-ctor,noexcept-move", "A:throwing-move-assign", "A/G:copy-only,throwing-copy-ctor" };

// Movable element. F_K: the copy constructor throws on demand (moves are noexcept). F_AMOVE: the move assignment throws on
// demand (before it changes anything). A moved-from element is marked so that a queue handing one out is recognised.
template <int F> struct El {
    long v, chk;
    void set(long x) { v = x; chk = ~x; }
    El() { set(V_DEFAULT); g_live.fetch_add(1, std::memory_order_relaxed); }
    explicit El(long x) { set(x); g_live.fetch_add(1, std::memory_order_relaxed); }
    El(long x, EmplaceTag) { set(x); g_slots.push[tl_tid].store(this, std::memory_order_relaxed); g_live.fetch_add(1, std::memory_order_relaxed); }   // the temporary inside emplace()
    El(const El& o) { elem_op(S_COPY_CTOR, &o, this, o.v, F == F_K); v = o.v; chk = o.chk; g_live.fetch_add(1, std::memory_order_relaxed); }
    El(El&& o) noexcept { elem_op(S_MOVE_CTOR, &o, this, o.v, false); v = o.v; chk = o.chk; o.set(V_MOVED); g_live.fetch_add(1, std::memory_order_relaxed); }
    El& operator=(const El& o) { if (this != &o) { elem_op(S_COPY_ASSIGN, &o, this, o.v, false); v = o.v; chk = o.chk; } return *this; }
    El& operator=(El&& o) noexcept(F != F_AMOVE) { if (this != &o) { elem_op(S_MOVE_ASSIGN, &o, this, o.v, F == F_AMOVE); v = o.v; chk = o.chk; o.set(V_MOVED); } return *this; }
    ~El() { g_live.fetch_sub(1, std::memory_order_relaxed); }
    bool ok() const { return chk == ~v; }
};
// Copy-only element (declaring the copy operations suppresses the moves): everything the queue does is a copy. The copy
// constructor throws on demand; the copy assignment never does.
struct ElC {
    long v, chk;
    void set(long x) { v = x; chk = ~x; }
    ElC() { set(V_DEFAULT); g_live.fetch_add(1, std::memory_order_relaxed); }
    explicit ElC(long x) { set(x); g_live.fetch_add(1, std::memory_order_relaxed); }
    ElC(long x, EmplaceTag) { set(x); g_slots.push[tl_tid].store(this, std::memory_order_relaxed); g_live.fetch_add(1, std::memory_order_relaxed); }
    ElC(const ElC& o) { elem_op(S_COPY_CTOR, &o, this, o.v, true); v = o.v; chk = o.chk; g_live.fetch_add(1, std::memory_order_relaxed); }
    ElC& operator=(const ElC& o) { if (this != &o) { elem_op(S_COPY_ASSIGN, &o, this, o.v, false); v = o.v; chk = o.chk; } return *this; }
    ~ElC() { g_live.fetch_sub(1, std::memory_order_relaxed); }
    bool ok() const { return chk == ~v; }
};
static_assert(std::is_nothrow_move_constructible<El<F_K>>::value && std::is_nothrow_move_assignable<El<F_K>>::value, "class K needs a non-throwing move");
static_assert(!std::is_nothrow_move_assignable<El<F_AMOVE>>::value, "class A: throwing move assignment");
static_assert(!std::is_nothrow_move_constructible<ElC>::value, "copy-only element");

struct Cmp { template <class T> bool operator()(const T& a, const T& b) const { return prio_of(a.v) < prio_of(b.v); } };
template <class E> using PQ = tbb::concurrent_priority_queue<E, Cmp>;

// ------------------------------------------------------------------------------------------------ clocks and logs
// Clock mode 0: one global seq_cst counter. Mode 1: CLOCK_MONOTONIC, returns stamped 2 us late (A precedes B only if
// A.ret + 2 us < B.call): a weaker real-time order, so checkers only get more permissive, and no fence between operations.
struct Clock {
    std::atomic<uint64_t> c{1}; bool wall = false;
    uint64_t call() { return wall ? now_ns() : c.fetch_add(1); }
    uint64_t ret() { return wall ? now_ns() + 2000 : c.fetch_add(1); }
};
struct Log {
    std::vector<Op> ops; int thread = 0;
    void reset(int t) { ops.clear(); thread = t; }
    size_t begin(Clock& clk, int kind, long arg) { Op o; o.thread = thread; o.kind = kind; o.arg = arg; o.ret = ~0ull; o.open = true; ops.push_back(o); ops.back().call = clk.call(); return ops.size() - 1; }
    void end(Clock& clk, size_t i, long res) { uint64_t r = clk.ret(); ops[i].res = res; ops[i].ret = r; ops[i].open = false; }
};

// ------------------------------------------------------------------------------------------------ worker pool
inline void relax(int& spins) { if (++spins < 64) _mm_pause(); else sched_yield(); }
struct Pool {
    std::vector<std::thread> th;
    std::atomic<uint64_t> word{0};   // (round << 8) | active workers, in one word
    uint64_t round_no = 0;
    std::atomic<uint32_t> gen{0}; std::atomic<int> sleepers{0};
    void wake() { gen.fetch_add(1); if (sleepers.load() > 0) syscall(SYS_futex, (uint32_t*)&gen, 1 /*FUTEX_WAKE*/, 1 << 30, nullptr, nullptr, 0); }
    std::atomic<int> arrived{0}, finished{0}, waiter_asleep{0};
    int n_active = 0;
    std::function<void(int)> job;
    explicit Pool(int n) {
        for (int t = 0; t < n; t++) th.emplace_back([this, t] {
            tl_tid = t; (void)hook_thread();
            uint64_t seen = 0;
            for (;;) {
                int sp = 0; uint64_t w;
                while (((w = word.load()) >> 8) == seen) {
                    if (++sp < 2000) _mm_pause(); else if (sp < 3000) sched_yield();
                    else {      // really block: an idle poller would keep the watchdog from ever seeing quiescence or a spin-stall
                        uint32_t g = gen.load(); sleepers.fetch_add(1);
                        if ((word.load() >> 8) == seen) syscall(SYS_futex, (uint32_t*)&gen, 0 /*FUTEX_WAIT*/, g, nullptr, nullptr, 0);
                        sleepers.fetch_sub(1);
                    }
                }
                seen = w >> 8;
                int na = (int)(w & 0xff);
                if (t < na) {
                    arrived.fetch_add(1);
                    int s2 = 0; while (arrived.load(std::memory_order_acquire) < na) relax(s2);      // spin barrier: the short sequences really overlap
                    job(t);
                    finished.fetch_add(1, std::memory_order_seq_cst);
                    if (waiter_asleep.load(std::memory_order_seq_cst)) syscall(SYS_futex, (uint32_t*)&finished, 1 /*FUTEX_WAKE*/, 1, nullptr, nullptr, 0);
                }
            }
        });
    }
    void start(int n, std::function<void(int)> f) { job = std::move(f); n_active = n; arrived.store(0); finished.store(0); word.store((++round_no << 8) | (uint64_t)n); wake(); }
    bool done() const { return finished.load(std::memory_order_acquire) >= n_active; }
    // The coordinator spins for a few ms, then blocks until the last worker finishes: while workers are wedged inside the queue it
    // is asleep, so a spin-stall verdict needs the CPU budget from the wedged threads only.
    void wait() {
        int s = 0;
        while (!done()) {
            if (++s < 20000) { if (s < 64) _mm_pause(); else sched_yield(); continue; }
            waiter_asleep.store(1, std::memory_order_seq_cst);
            int f = finished.load(std::memory_order_seq_cst);
            if (f < n_active) syscall(SYS_futex, (uint32_t*)&finished, 0 /*FUTEX_WAIT*/, f, nullptr, nullptr, 0);
            waiter_asleep.store(0, std::memory_order_seq_cst);
        }
    }
};

// ------------------------------------------------------------------------------------------------ hang context
struct HangCtx {
    std::atomic<int> cls{'L'};
    std::atomic<int> inflight{0};                 // threads currently inside push / emplace / try_pop
    std::atomic<int> cur_kind[kMaxT + 1];         // which operation each thread is inside (-1: none)
    std::atomic<long> cur_arg[kMaxT + 1];
    std::atomic<long> completed{0};
    std::atomic<int> phase{0};                    // 0 setup, 1 concurrent part, 2 quiescent drain
    std::atomic<bool> wrong_caller_reported{false};
    std::mutex m; std::string scenario = "{}";
    HangCtx() { for (auto& k : cur_kind) k.store(-1); for (auto& a : cur_arg) a.store(0); }
    void begin(int c, const std::string& scen) { cls.store(c); completed.store(0); phase.store(0); wrong_caller_reported.store(false); std::lock_guard<std::mutex> l(m); scenario = scen; }
    std::string scen() { std::lock_guard<std::mutex> l(m); return scenario; }
};
static HangCtx g_hc;
struct InFlight {
    int t;
    InFlight(int kind, long arg) : t(tl_tid) { g_hc.cur_arg[t].store(arg, std::memory_order_relaxed); g_hc.cur_kind[t].store(kind, std::memory_order_relaxed); g_hc.inflight.fetch_add(1, std::memory_order_relaxed); }
    ~InFlight() { g_hc.inflight.fetch_sub(1, std::memory_order_relaxed); g_hc.cur_kind[t].store(-1, std::memory_order_relaxed); }
};
inline std::string cls_key(int cls, const std::string& what) { return std::string("c13.") + (char)cls + "." + what; }
inline std::string throws_str() {
    std::string s; int n = g_inj.thrown();
    for (int i = 0; i < n; i++) { ThrowRec& r = g_inj.rec[i]; if (!r.ready.load(std::memory_order_acquire)) continue;
        s += "[throw " + std::to_string(i) + ": " + site_names[r.site.load()] + " of " + vstr(r.val.load()) + " executed by thread " + std::to_string(r.handler.load()) + ", on behalf of " + (r.owner.load() >= 0 ? "thread " + std::to_string(r.owner.load()) : std::string("no single caller (internal move/copy)")) + "] "; }
    return s.empty() ? "none" : s;
}

// An exception reached thread t out of `kind`(arg). Judge at once whether it is the caller the throw belongs to (a wedge may follow).
inline void exception_arrived(int t, int kind, long arg, long code, int boom_id) {
    int cls = g_hc.cls.load();
    int n = g_inj.thrown();
    bool mine = false, ambiguous = false;
    auto fits = [&](ThrowRec& r) {
        if (!r.ready.load(std::memory_order_acquire)) return;
        int ow = r.owner.load();
        if (ow < 0) ambiguous = true;
        else if (ow == t && (is_push(kind) ? (r.site.load() <= S_MOVE_CTOR && r.val.load() == arg) : r.site.load() >= S_MOVE_ASSIGN)) mine = true;
    };
    if (code == RS_BOOM && boom_id >= 0 && boom_id < 4) fits(g_inj.rec[boom_id]);       // the escaped exception names its throw
    else for (int i = 0; i < n; i++) fits(g_inj.rec[i]);
    if (mine || ambiguous) return;
    std::string what = n == 0 ? "unexpected-exception" : "exception-on-wrong-caller";
    if (g_hc.wrong_caller_reported.exchange(true)) return;
    result().violation(cls_key(cls, what), std::string(kind_names[kind]) + "(" + vstr(arg) + ") on thread " + std::to_string(t) + " ended with " + (code == RS_BOOM ? "the injected exception" : code == RS_BADALLOC ? "std::bad_alloc" : "an exception") +
        " although no element copy/move performed for this operation threw; injected throws: " + throws_str(), g_hc.scen());
}

// one operation against the real queue, exceptions mapped to result codes
template <class E> long do_op(PQ<E>& q, int kind, long val) {
    const int t = tl_tid;
    long code; int boom_id = -1;
    try {
        InFlight fl(kind, val);
        switch (kind) {
        case K_PUSH: { E e(val); SlotSet s(g_slots.push[t], &e); q.push(e); return (e.v == val && e.ok()) ? RS_OK : RS_SRC_MODIFIED; }
        case K_PUSH_RV: { E e(val); SlotSet s(g_slots.push[t], &e); q.push(std::move(e)); return RS_OK; }
        case K_EMPLACE: { SlotSet s(g_slots.push[t], nullptr); q.emplace(val, EmplaceTag()); return RS_OK; }
        default: { E e; SlotSet s(g_slots.pop[t], &e); if (!q.try_pop(e)) return RS_EMPTY; if (!e.ok()) return RS_CORRUPT; return e.v >= 0 ? e.v : RS_MOVED_FROM; }
        }
    } catch (Boom& b) { code = RS_BOOM; boom_id = b.id; }
    catch (std::bad_alloc&) { code = RS_BADALLOC; }
    catch (...) { code = RS_OTHER_EXC; }
    exception_arrived(t, kind, val, code, boom_id);
    return code;
}

// ------------------------------------------------------------------------------------------------ sequential model
// Multiset of values; try_pop may return any element of maximal priority and says "empty" only on an empty multiset; a push
// that ended with an exception is a no-op. K_DRAIN is the coordinator's quiescent drain as one operation: legal iff the
// multiset equals the drained values.
struct PqModel {
    std::vector<long> initial;            // sorted
    std::vector<long> drained_sorted;
    using State = std::vector<long>;      // sorted ascending (priority is the major part of a value)
    State init() const { return initial; }
    bool apply(State& s, const Op& o) const {
        if (o.kind == K_DRAIN) { if (s != drained_sorted) return false; s.clear(); return true; }
        if (is_push(o.kind)) { if (o.res == RS_OK) s.insert(std::upper_bound(s.begin(), s.end(), o.arg), o.arg); return true; }
        if (o.res == RS_EMPTY) return s.empty();
        if (o.res < 0 || s.empty()) return false;
        if (prio_of(o.res) != prio_of(s.back())) return false;
        auto it = std::lower_bound(s.begin(), s.end(), o.res);
        if (it == s.end() || *it != o.res) return false;
        s.erase(it); return true;
    }
    uint64_t hash(const State& s) const { uint64_t h = s.size(); for (long v : s) h = mix(h, (uint64_t)v); return h; }
};

// ------------------------------------------------------------------------------------------------ plans
struct PlanOp { uint8_t kind; long val; uint16_t delay; };
struct Plan {
    int cls = 'L'; int flavor = F_PLAIN; int nthreads = 2; uint64_t seed = 0;
    std::vector<PlanOp> ops[kMaxT];
    std::vector<long> prefill;
    int ctor_mode = 0;              // 0: default ctor + pushes, 1: iterator-range ctor (heapify), 2: capacity ctor + pushes
    bool wall_clock = false;
    long arm[2] = { -1, -1 }; int filter = 0;
    int nprio = 4; int focus = 0;   // focus 1: delay (almost) every handler before it grabs the pending list
    int total() const { int n = 0; for (int t = 0; t < nthreads; t++) n += (int)ops[t].size(); return n; }
};
inline std::string plan_json(const Plan& p) {
    Json j; j.obj(); j.kv("class", std::string(1, (char)p.cls)); j.kv("seed", (unsigned long long)p.seed); j.kv("element", flavor_names[p.flavor]);
    j.kv("priorities", p.nprio); j.kv("ctor", p.ctor_mode == 0 ? "default" : p.ctor_mode == 1 ? "range" : "capacity"); j.kv("clock", p.wall_clock ? "monotonic+2us" : "seq");
    if (p.arm[0] >= 0 || p.arm[1] >= 0) { j.key("throw_at_event").arr(); if (p.arm[0] >= 0) j.val(p.arm[0]); if (p.arm[1] >= 0) j.val(p.arm[1]); j.end_arr(); j.kv("throw_filter", p.filter == 1 ? "copy-from-caller-object" : p.filter == 2 ? "try_pop-assignment-executed-by-another-thread" : "any-site"); }
    j.key("prefill").arr(); for (size_t i = 0; i < p.prefill.size() && i < 40; i++) j.val(vstr(p.prefill[i])); j.end_arr(); j.kv("prefill_count", (long)p.prefill.size());
    j.key("threads").arr();
    for (int t = 0; t < p.nthreads; t++) { j.arr(); for (auto& o : p.ops[t]) { if (j.s.size() > 2500) break; j.arr(); j.val(kind_names[o.kind]); if (is_push(o.kind)) j.val(vstr(o.val)); j.end_arr(); } j.end_arr(); }
    j.end_arr(); j.end_obj(); return j.s;
}

struct PrioGen {        // priority sequence of one thread: random with duplicates, monotone runs, constant
    int pattern, nprio; long cur;
    PrioGen(Rng& r, int np) : pattern((int)r.below(5)), nprio(np), cur((long)r.below((uint64_t)np)) { if (pattern == 1) cur = 0; if (pattern == 2) cur = np - 1; }
    long next(Rng& r) {
        switch (pattern) {
        case 1: { long p = cur; if (cur < nprio - 1 && r.chance(3, 4)) cur++; return p; }       // ascending run (with repeats)
        case 2: { long p = cur; if (cur > 0 && r.chance(3, 4)) cur--; return p; }               // descending run
        case 3: return cur;                                                                     // constant: all ties
        default: return (long)r.below((uint64_t)nprio);
        }
    }
};

inline void gen_prefill(Rng& r, Plan& p, int n) {
    PrioGen g(r, p.nprio);
    for (int i = 0; i < n; i++) p.prefill.push_back(mkval(g.next(r), 500000 + i));
}

// short plan: 2-4 threads x 3-12 operations
inline Plan gen_plan(Rng& r, int cls, long case_index) {
    Plan p; p.cls = cls; p.seed = r.next();
    p.flavor = cls == 'K' ? F_K : cls == 'G' ? F_ACOPY : cls == 'A' ? (r.chance(1, 2) ? F_AMOVE : F_ACOPY) : F_PLAIN;
    p.nthreads = 2 + (int)r.below(3);
    p.nprio = r.pick(std::vector<int>{ 1, 2, 3, 4, 8, 32 });
    p.ctor_mode = (int)r.below(3);
    p.wall_clock = r.chance(1, 4);
    p.focus = r.chance(1, 3) ? 1 : 0;
    gen_prefill(r, p, r.pick(std::vector<int>{ 0, 0, 1, 2, 3, 5, 8, 13, 24 }));
    int profile = (int)r.below(3); unsigned pp = profile == 0 ? 65 : profile == 1 ? 50 : 35;
    int maxops = p.nthreads == 4 ? 11 : 12;
    for (int t = 0; t < p.nthreads; t++) {
        PrioGen g(r, p.nprio);
        int n = 3 + (int)r.below((uint64_t)maxops - 2);
        for (int i = 0; i < n; i++) {
            PlanOp o; o.delay = r.chance(1, 4) ? (uint16_t)r.below(400) : 0; o.val = 0;
            if (r.below(100) < pp) {
                unsigned x = (unsigned)r.below(100);
                o.kind = (cls == 'K') ? (x < 70 ? K_PUSH : x < 85 ? K_PUSH_RV : K_EMPLACE) : (x < 50 ? K_PUSH : x < 75 ? K_PUSH_RV : K_EMPLACE);
                o.val = mkval(g.next(r), t * 10000 + i);
            } else o.kind = K_TRY_POP;
            p.ops[t].push_back(o);
        }
    }
    int npush = 0, ncopy = 0; for (int t = 0; t < p.nthreads; t++) for (auto& o : p.ops[t]) { if (is_push(o.kind)) npush++; if (o.kind == K_PUSH) ncopy++; }
    if (cls == 'K') {           // fault enumeration: the k-th copy construction throws, k sweeps every position (k == ncopy: none)
        p.arm[0] = case_index % (ncopy + 1);
        if (r.chance(1, 4)) p.arm[1] = (long)r.below((uint64_t)ncopy + 1);
    } else if (cls == 'G') {    // copy-only element: every push kind copies from the caller's object; the k-th such copy throws
        p.filter = 1; p.arm[0] = case_index % (npush + 1);
        if (r.chance(1, 4)) p.arm[1] = (long)r.below((uint64_t)npush + 1);
    } else if (cls == 'A') {    // the k-th throwing-capable copy/move at any site (push_back, reallocation, try_pop assignment, heapify, reheap)
        p.arm[0] = (long)r.below((uint64_t)(3 * p.total() + 2));
        if (p.flavor == F_AMOVE && r.chance(1, 2)) { p.filter = 2; p.arm[0] = (long)r.below(3); }      // the try_pop assignment of another caller's operation
    }
    return p;
}

// long plan: 2-8 threads x 200-1500 operations
inline Plan gen_stress(Rng& r) {
    Plan p; p.cls = 'S'; p.seed = r.next(); p.flavor = F_PLAIN;
    p.nthreads = 2 + (int)r.below(7);
    p.nprio = r.pick(std::vector<int>{ 1, 2, 4, 16, 64 });
    p.ctor_mode = (int)r.below(3);
    p.wall_clock = r.chance(1, 3);
    p.focus = r.chance(1, 4) ? 1 : 0;
    gen_prefill(r, p, r.chance(1, 2) ? (int)r.below(200) : 0);
    int per = 200 + (int)r.below(1300);
    for (int t = 0; t < p.nthreads; t++) {
        PrioGen g(r, p.nprio);
        unsigned pp = (unsigned)r.pick(std::vector<int>{ 80, 50, 50, 20 });
        if (t == 0) pp = 65; if (t == 1) pp = 35;
        for (int i = 0; i < per; i++) {
            PlanOp o; o.delay = r.chance(1, 10) ? (uint16_t)r.below(600) : 0; o.val = 0;
            if (r.below(100) < pp) { unsigned x = (unsigned)r.below(100); o.kind = x < 50 ? K_PUSH : x < 75 ? K_PUSH_RV : K_EMPLACE; o.val = mkval(g.next(r), t * 10000 + i); }
            else o.kind = K_TRY_POP;
            p.ops[t].push_back(o);
        }
    }
    return p;
}

// ------------------------------------------------------------------------------------------------ outcome and engine
struct Outcome {
    std::vector<Op> ops;            // operations of the pool threads
    std::vector<Op> drain_ops;      // the coordinator's quiescent try_pops (one Op each), for the aspect checks
    std::vector<long> drained;
    long size_before_drain = -1, size_after_drain = -1; bool empty_before_drain = false, empty_after_drain = true;
    long live_leak = 0;
    std::string fail_key, fail_detail;
    void fail(const std::string& k, const std::string& d) { if (fail_key.empty()) { fail_key = k; fail_detail = d; } }
};

struct Engine {
    Pool pool; Clock clk; Log logs[kMaxT + 1];
    Engine() : pool(kMaxT) {}

    template <class E> void run(const Plan& p, Outcome& out) {
        const int n = p.nthreads, me = kMaxT;
        clk.wall = p.wall_clock || g_light; clk.c.store(1);
        for (int t = 0; t < n; t++) logs[t].reset(t);
        logs[me].reset(n);
        g_inj.disarm();
        long live0 = g_live.load();
        {
            // the prefill is not part of the history: it is the model's initial state
            std::vector<E> init; if (p.ctor_mode == 1) { init.reserve(p.prefill.size()); for (long v : p.prefill) init.emplace_back(v); }
            PQ<E> q = p.ctor_mode == 1 ? PQ<E>(init.begin(), init.end()) : p.ctor_mode == 2 ? PQ<E>((size_t)(p.prefill.size() + (size_t)p.total())) : PQ<E>();
            init.clear();
            if (p.ctor_mode != 1) for (long v : p.prefill) { long r = do_op(q, K_PUSH, v); if (r != RS_OK) out.fail("prefill", "single-threaded push ended with code " + std::to_string(r)); }
            if ((long)q.size() != (long)p.prefill.size()) out.fail("size-mismatch", "size() == " + std::to_string(q.size()) + " after a single-threaded prefill of " + std::to_string(p.prefill.size()));
            g_exec.reset(!g_light);
            g_inj.arm(p.arm[0], p.arm[1], p.filter);
            g_hc.phase.store(1);
            pool.start(n, [&](int t) {
                Log& lg = logs[t];
                for (const PlanOp& o : p.ops[t]) {
                    if (o.delay) spin_iters(o.delay);
                    size_t i = lg.begin(clk, o.kind, o.val);
                    long r = do_op(q, o.kind, o.val);
                    lg.end(clk, i, r);
                    g_hc.completed.fetch_add(1, std::memory_order_relaxed);
                    progress();
                }
            });
            pool.wait();
            g_inj.disarm();
            g_exec.on.store(false);
            g_hc.phase.store(2);
            out.size_before_drain = (long)q.size(); out.empty_before_drain = q.empty();
            for (;;) {      // quiescent drain by the coordinator
                Log& lg = logs[me]; size_t i = lg.begin(clk, K_TRY_POP, 0); long r = do_op(q, K_TRY_POP, 0); lg.end(clk, i, r);
                progress();
                if (r == RS_EMPTY) { lg.ops.pop_back(); break; }
                if (r >= 0) out.drained.push_back(r);
                else { out.fail(r == RS_MOVED_FROM ? "moved-from-element-returned" : r == RS_CORRUPT ? "element-corrupt" : "drain-exception", "try_pop at quiescence ended with code " + std::to_string(r)); break; }
                if (out.drained.size() > 200000) { out.fail("drain-endless", "the quiescent drain returned more than 200000 values"); break; }
            }
            out.size_after_drain = (long)q.size(); out.empty_after_drain = q.empty();
        }   // queue destroyed
        out.live_leak = g_live.load() - live0;
        for (int t = 0; t < n; t++) out.ops.insert(out.ops.end(), logs[t].ops.begin(), logs[t].ops.end());
        out.drain_ops = logs[me].ops;
        g_hc.phase.store(0);
    }
    void run_flavor(const Plan& p, Outcome& out) {
        switch (p.flavor) {
        case F_K: run<El<F_K>>(p, out); break;
        case F_AMOVE: run<El<F_AMOVE>>(p, out); break;
        case F_ACOPY: run<ElC>(p, out); break;
        default: run<El<F_PLAIN>>(p, out); break;
        }
    }
};

// ------------------------------------------------------------------------------------------------ batch evidence
struct BatchStats { long batches = 0, multi = 0, mixed = 0, delegated = 0, same_batch_pops = 0, max_batch = 0, ops = 0; long hist[6] = { 0, 0, 0, 0, 0, 0 }; };
inline void analyse_exec_log(BatchStats& b) {
    uint32_t n = std::min(g_exec.n.load(), ExecLog::kCap);
    long sz = 0, pushes = 0, pops = 0; std::vector<long> pushed;
    auto flush = [&] {
        if (sz > 0) { b.batches++; if (sz >= 2) b.multi++; if (pushes && pops) b.mixed++; b.max_batch = std::max(b.max_batch, sz); b.hist[sz == 1 ? 0 : sz == 2 ? 1 : sz == 3 ? 2 : sz == 4 ? 3 : sz <= 8 ? 4 : 5]++; }
        sz = pushes = pops = 0; pushed.clear();
    };
    for (uint32_t i = 0; i < n; i++) {
        const ExecEv& e = g_exec.ev[i];
        if (e.type == 0) { flush(); continue; }
        sz++; b.ops++;
        if (e.owner != e.handler) b.delegated++;
        if (e.type == 1) { pushes++; pushed.push_back(e.val); }
        else { pops++; if (std::find(pushed.begin(), pushed.end(), e.val) != pushed.end()) b.same_batch_pops++; }
    }
    flush();
}

// ------------------------------------------------------------------------------------------------ checks
// Sound for any history length; values are unique. `tainted`: values involved in an exception thrown outside a push's own
// copy (class A on a library that survives it): they may be lost, never duplicated.
struct Aspect { long pushes = 0, pops = 0, empties = 0, exceptions = 0; };
inline void aspect_check(const Plan& p, const Outcome& o, Outcome& out, Aspect& as, const std::set<long>& tainted) {
    struct V { uint64_t pret = 0, pcall = 0, ccall = ~0ull, cret = ~0ull; bool pushed = false, popped = false, failed = false; };
    std::map<long, V> vals;
    for (long v : p.prefill) { V& x = vals[v]; x.pushed = true; }
    for (const Op& op : o.ops) if (is_push(op.kind)) {
        V& x = vals[op.arg];
        if (x.pushed || x.failed) out.fail("harness-duplicate-push-id", vstr(op.arg));
        if (op.res == RS_OK) { x.pushed = true; x.pcall = op.call; x.pret = op.ret; as.pushes++; }
        else if (op.res == RS_SRC_MODIFIED) { x.pushed = true; x.pcall = op.call; x.pret = op.ret; out.fail("push-modified-source", "push(const T&) of " + vstr(op.arg) + " changed the caller's object"); }
        else { x.failed = true; x.pcall = op.call; as.exceptions++; }
    }
    std::vector<const Op*> pops;
    for (const Op& op : o.ops) if (!is_push(op.kind)) pops.push_back(&op);
    for (const Op& op : o.drain_ops) pops.push_back(&op);
    for (const Op* op : pops) {
        long r = op->res;
        if (r == RS_EMPTY) { as.empties++; continue; }
        if (r == RS_CORRUPT) { out.fail("element-corrupt", "a popped element's check word does not match its value"); continue; }
        if (r == RS_MOVED_FROM) { out.fail("moved-from-element-returned", "try_pop succeeded with an element that had been moved from"); continue; }
        if (is_exc(r)) { as.exceptions++; continue; }
        if (r < 0) { out.fail("pop-result", "try_pop ended with code " + std::to_string(r)); continue; }
        auto it = vals.find(r);
        if (it == vals.end() || (!it->second.pushed && !it->second.failed)) { out.fail("value-invented", "popped value " + vstr(r) + " was never pushed"); continue; }
        V& x = it->second;
        if (x.failed && !tainted.count(r)) { out.fail("failed-push-visible", "value " + vstr(r) + " was popped although its push ended with an exception"); continue; }
        if (x.popped) { out.fail("value-duplicated", "value " + vstr(r) + " was popped twice"); continue; }
        x.popped = true; x.ccall = op->call; x.cret = op->ret; as.pops++;
        if (op->ret < x.pcall) out.fail("pop-before-push", "value " + vstr(r) + " was returned by a try_pop before its push was invoked");
    }
    for (auto& kv : vals) if (kv.second.pushed && !kv.second.popped && !tainted.count(kv.first)) { out.fail("value-lost", "value " + vstr(kv.first) + " was pushed but neither popped nor found by the quiescent drain"); break; }
    // the quiescent drain is sequential: priorities must not increase
    for (size_t i = 1; i < o.drained.size(); i++) if (prio_of(o.drained[i]) > prio_of(o.drained[i - 1])) { out.fail("drain-order-broken", "sequential try_pops at quiescence returned " + vstr(o.drained[i - 1]) + " before " + vstr(o.drained[i])); break; }
    // priority vs real time (necessary condition of linearizability): a try_pop must not return x (or "empty") if some y of higher
    // (any) priority was pushed (push returned) before the try_pop was invoked and is popped only after it returned, or never
    {
        struct In { uint64_t pret; long prio; uint64_t ccall; long id; };
        std::vector<In> ins; for (auto& kv : vals) if (kv.second.pushed) ins.push_back(In{ kv.second.pret, prio_of(kv.first), kv.second.popped ? kv.second.ccall : ~0ull, kv.first });
        std::sort(ins.begin(), ins.end(), [](const In& a, const In& b) { return a.pret < b.pret; });
        std::sort(pops.begin(), pops.end(), [](const Op* a, const Op* b) { return a->call < b->call; });
        uint64_t best[kMaxPrio]; long best_id[kMaxPrio]; for (int i = 0; i < kMaxPrio; i++) { best[i] = 0; best_id[i] = -1; }
        size_t k = 0;
        for (const Op* op : pops) {
            while (k < ins.size() && ins[k].pret < op->call) { long pr = std::min<long>(ins[k].prio, kMaxPrio - 1); if (ins[k].ccall >= best[pr]) { best[pr] = ins[k].ccall; best_id[pr] = ins[k].id; } k++; }
            if (op->res != RS_EMPTY && op->res < 0) continue;
            long from = op->res == RS_EMPTY ? 0 : prio_of(op->res) + 1;
            for (long pr = from; pr < kMaxPrio; pr++) if (best_id[pr] >= 0 && best[pr] > op->ret && !tainted.count(best_id[pr])) {
                if (op->res == RS_EMPTY) out.fail("empty-with-item-inside", "try_pop (thread " + std::to_string(op->thread) + ") reported empty although " + vstr(best_id[pr]) + " was pushed before the call and popped only after it");
                else out.fail("priority-inversion", "try_pop (thread " + std::to_string(op->thread) + ") returned " + vstr(op->res) + " although " + vstr(best_id[pr]) + " (higher priority) was pushed before the call and popped only after it" + (best[pr] == ~0ull ? " (never)" : ""));
                break;
            }
            if (!out.fail_key.empty()) break;
        }
    }
}

// who received the injected exceptions? exactly the callers whose operation's own copy/move threw (classes K, G, A)
inline void exception_check(const Plan& p, const Outcome& o, Outcome& out, bool& all_guarded, std::set<long>& tainted) {
    std::vector<const Op*> exc; for (const Op& op : o.ops) if (is_exc(op.res)) exc.push_back(&op);
    for (const Op& op : o.drain_ops) if (is_exc(op.res)) exc.push_back(&op);
    int n = g_inj.thrown(); all_guarded = true;
    if (p.cls == 'L' || p.cls == 'S') { if (!exc.empty()) out.fail("unexpected-exception", std::string(kind_names[exc[0]->kind]) + " ended with exception code " + std::to_string(exc[0]->res) + " although nothing was made to throw"); return; }
    std::vector<bool> used(exc.size(), false);
    int unmatched_recs = 0; std::string first_unmatched;
    for (int pass = 0; pass < 2; pass++) for (int i = 0; i < n; i++) {
        ThrowRec& r = g_inj.rec[i]; int ow = r.owner.load(), site = r.site.load(); long val = r.val.load();
        if ((pass == 0) != (ow >= 0)) continue;
        bool guarded = site == S_COPY_CTOR && ow >= 0;          // the copy of a push's own argument
        if (!guarded) { all_guarded = false; tainted.insert(val); }
        bool found = false;
        for (size_t e = 0; e < exc.size() && !found; e++) {
            if (used[e]) continue;
            if (ow >= 0) { if (exc[e]->thread != ow) continue; if (site <= S_MOVE_CTOR ? !(is_push(exc[e]->kind) && exc[e]->arg == val) : is_push(exc[e]->kind)) continue; }
            used[e] = true; found = true;
            if (!guarded) { if (is_push(exc[e]->kind)) tainted.insert(exc[e]->arg); }
        }
        if (!found) { unmatched_recs++; if (first_unmatched.empty()) first_unmatched = std::string(site_names[site]) + " of " + vstr(val) + (ow >= 0 ? " for thread " + std::to_string(ow) : ""); }
    }
    int leftover = 0; const Op* lo = nullptr; for (size_t e = 0; e < exc.size(); e++) if (!used[e]) { leftover++; if (!lo) lo = exc[e]; }
    if (g_hc.wrong_caller_reported.load()) return;       // already reported when the exception arrived
    if (unmatched_recs && leftover) out.fail("exception-on-wrong-caller", "the throw in " + first_unmatched + " did not reach its caller, but " + kind_names[lo->kind] + "(" + vstr(lo->arg) + ") on thread " + std::to_string(lo->thread) + " ended with an exception; throws: " + throws_str());
    else if (unmatched_recs) out.fail("exception-swallowed", "the throw in " + first_unmatched + " reached no caller; throws: " + throws_str());
    else if (leftover) out.fail("unexpected-exception", std::string(kind_names[lo->kind]) + "(" + vstr(lo->arg) + ") on thread " + std::to_string(lo->thread) + " ended with an exception that no injected throw accounts for; throws: " + throws_str());
}

inline long concurrent_ops(const std::vector<Op>& ops) {     // operations during which an operation of another thread was invoked
    std::vector<std::pair<uint64_t, int>> calls; for (auto& o : ops) calls.push_back({ o.call, o.thread });
    std::sort(calls.begin(), calls.end());
    long c = 0;
    for (auto& o : ops) {
        auto it = std::upper_bound(calls.begin(), calls.end(), std::make_pair(o.call, 1 << 30));
        for (int k = 0; k < 3 && it != calls.end() && it->first < o.ret; ++it, ++k) if (it->second != o.thread) { c++; break; }
    }
    return c;
}

static const std::vector<int>& hook_ids() { static std::vector<int> v = { 170, 171 }; return v; }

// Runs one plan, checks it, records evidence.
inline void run_case(Engine& E, const Plan& p, Rng& r) {
    Result& R = result();
    const std::string cs(1, (char)p.cls);
    g_hc.begin(p.cls, plan_json(p));
    R.stat("scenarios_started_" + cs);
    Outcome out;
    if (p.focus) { perturb().focus(std::vector<int>{ 171 }, 30000 + (uint32_t)r.below(35000), (uint32_t)r.below(3000)); perturb().budget.store(2500); }
    else perturb_random(r, hook_ids());
    E.run_flavor(p, out);
    perturb().clear();
    R.scenarios++;
    const bool stress = p.cls == 'S';
    BatchStats bs; if (!g_light) analyse_exec_log(bs);
    int nthrown = g_inj.thrown();
    bool all_guarded = true; std::set<long> tainted;
    exception_check(p, out, out, all_guarded, tainted);
    Aspect as;
    aspect_check(p, out, out, as, tainted);
    // quiescent size()/empty() against the history
    if (nthrown == 0 || all_guarded) {
        long expect = (long)p.prefill.size() + as.pushes - (as.pops - (long)out.drained.size());
        if (out.size_before_drain != expect) out.fail("size-mismatch", "size() == " + std::to_string(out.size_before_drain) + " at quiescence, the history says " + std::to_string(expect));
        if (out.empty_before_drain != (expect == 0)) out.fail("size-mismatch", "empty() disagrees with the history at quiescence");
        if ((long)out.drained.size() != expect && out.fail_key.empty()) out.fail("size-mismatch", "the quiescent drain returned " + std::to_string(out.drained.size()) + " values, the history says " + std::to_string(expect));
    }
    if (out.size_after_drain != 0 || !out.empty_after_drain) out.fail("size-mismatch", "size() == " + std::to_string(out.size_after_drain) + " after try_pop reported empty at quiescence");
    if (out.live_leak != 0) out.fail("element-leak", std::to_string(out.live_leak) + " more element constructions than destructions after the queue was destroyed");
    // evidence
    int n = (int)out.ops.size();
    long ov = stress ? concurrent_ops(out.ops) : overlapping_pairs(out.ops);
    R.stat("ops", n); R.stat(stress ? "S_concurrent_ops" : "overlapping_pairs", ov);
    R.stat("pops", as.pops); R.stat("try_pop_empty", as.empties); R.stat("scenarios_" + cs);
    if (stress) { R.stat("S_ops", n); }
    if (!g_light) {
        R.stat("batches", bs.batches); R.stat("batches_multi", bs.multi); R.stat("batches_mixed_push_pop", bs.mixed); R.stat("ops_executed_by_other_thread", bs.delegated);
        R.stat("pops_served_from_same_batch_push", bs.same_batch_pops); R.stat("ops_attributed", bs.ops); R.stat_max("max_batch", bs.max_batch);
        static const char* const hn[] = { "batch_size_1", "batch_size_2", "batch_size_3", "batch_size_4", "batch_size_5_8", "batch_size_9plus" };
        for (int i = 0; i < 6; i++) if (bs.hist[i]) R.stat(hn[i], bs.hist[i]);
    }
    if (nthrown) {
        R.stat(cs + "_injected_throws", nthrown);
        long got = 0; for (auto& o : out.ops) if (is_exc(o.res)) got++;
        R.stat(cs + "_operations_ended_with_exception", got);
        if (!all_guarded) R.stat(cs + "_scenarios_completed_after_throw_without_single_owner");
    } else if (p.cls == 'K' || p.cls == 'G' || p.cls == 'A') R.stat(cs + "_scenarios_without_throw");
    bool nontrivial = stress ? ov * 20 >= n : ov > 0;
    if (nontrivial) { R.nontrivial++; R.signature(mix(history_signature(out.ops), (uint64_t)p.cls)); if (!stress) R.stat("short_histories_overlapping"); }
    // linearizability
    Lin res = Lin::OK; uint64_t steps = 0;
    if (out.fail_key.empty() && !stress && (nthrown == 0 || all_guarded)) {
        std::vector<Op> h = out.ops;
        Op d; d.thread = p.nthreads; d.kind = K_DRAIN; d.arg = (long)out.drained.size(); d.res = 0; d.open = false;
        uint64_t last = 0; for (auto& o : out.ops) last = std::max(last, o.ret);
        d.call = out.drain_ops.empty() ? last + 1 : out.drain_ops.front().call; d.ret = out.drain_ops.empty() ? last + 2 : out.drain_ops.back().ret;
        h.push_back(d);
        PqModel m; m.initial = p.prefill; std::sort(m.initial.begin(), m.initial.end()); m.drained_sorted = out.drained; std::sort(m.drained_sorted.begin(), m.drained_sorted.end());
        res = check_linearizable(m, h, 3000000, nullptr, &steps);
        R.stat_max("max_wgl_steps", (long long)steps);
        if (res == Lin::OK) { R.stat("wgl_ok_" + cs); R.stat("short_histories_checked"); }
        else if (res == Lin::BUDGET) { R.inconclusive++; R.stat("wgl_budget"); }
        else out.fail("not-linearizable", "no linearization of the recorded history against the sequential priority-queue model (multiset; try_pop returns any maximal element, fails only when empty; failed pushes are no-ops)");
    }
    if (!out.fail_key.empty()) {
        Json j; j.obj(); j.key("plan").raw(g_hc.scen());
        if (!stress) { j.key("history[thread,op,arg,result,call,ret]").raw(history_json(out.ops, kind_names)); j.key("drained").arr(); for (size_t i = 0; i < out.drained.size() && i < 80; i++) j.val(vstr(out.drained[i])); j.end_arr(); }
        j.kv("throws", throws_str()); j.end_obj();
        R.violation(cls_key(p.cls, out.fail_key), out.fail_detail + "\n" + rings_dump(6), j.s);
        return;
    }
    if (!stress && nontrivial && ov >= 3 && (p.cls != 'L' || bs.multi > 0) && R.want_sample()) {
        Json j; j.obj(); j.kv("class", cs); j.kv("element", flavor_names[p.flavor]); j.kv("overlapping_pairs", ov); j.kv("wgl_steps", (unsigned long long)steps);
        j.kv("batches", bs.batches); j.kv("largest_batch", bs.max_batch); j.kv("ops_executed_by_other_thread", bs.delegated); j.kv("injected_throws", throws_str());
        j.key("prefill").arr(); for (size_t i = 0; i < p.prefill.size() && i < 30; i++) j.val(p.prefill[i]); j.end_arr();
        j.key("history[thread,op,value=prio<<20|id,result,call,ret]").raw(history_json(out.ops, kind_names));
        j.key("drained").arr(); for (size_t i = 0; i < out.drained.size() && i < 60; i++) j.val(out.drained[i]); j.end_arr(); j.end_obj();
        R.sample(j.s);
    }
}

} // namespace c13

using namespace c13;

static void on_hang(const HangInfo& hi) {
    Result& R = result();
    int cls = g_hc.cls.load();
    std::string kind = hi.quiescent ? "hang.quiescent" : hi.spin_stall ? "hang.spin-stall" : "";
    int infl = g_hc.inflight.load();
    std::string inside;
    for (int t = 0; t <= kMaxT; t++) { int k = g_hc.cur_kind[t].load(); if (k >= 0) inside += std::string(t == kMaxT ? "coordinator" : "thread " + std::to_string(t)) + " in " + kind_names[k] + "(" + vstr(g_hc.cur_arg[t].load()) + "); "; }
    std::string d = "no progress for " + std::to_string((int)hi.stalled_for) + " s (" + (hi.quiescent ? "quiescent: every thread asleep and unscheduled" : hi.spin_stall ? "spin-stall: every runnable thread burnt its CPU budget" : "hard limit") +
        "); class " + std::string(1, (char)cls) + ", phase " + (g_hc.phase.load() == 1 ? "concurrent" : g_hc.phase.load() == 2 ? "quiescent drain" : "setup") + ", " + std::to_string(g_hc.completed.load()) + " operations completed, " +
        std::to_string(infl) + " calls that never block by contract have not returned: " + inside + "injected throws: " + throws_str() + "\nthreads: " + hi.threads + "\n" + rings_dump(10);
    if (kind.empty()) { R.inconclusive++; fprintf(stderr, "[c13] watchdog: inconclusive stall\n%s\n", d.c_str()); R.finish_and_exit(4); }
    // harness-side predicate: push / emplace / try_pop have nothing to wait for but the handler; a thread inside one of them while
    // nobody can act (quiescent) or everybody burnt their budget (spin-stall) will never return
    if (infl <= 0) { R.inconclusive++; fprintf(stderr, "[c13] stall with no queue operation in flight (harness)\n%s\n", d.c_str()); R.finish_and_exit(4); }
    R.stat(std::string(1, (char)cls) + "_wedged");
    R.violation(cls_key(cls, kind), d, g_hc.scen());
    R.finish_and_exit(3);
}

static void on_crash(int sig) {
    static char buf[1400];
    const std::string& sc = g_hc.scenario;          // best effort: no lock in a signal handler
    int n = snprintf(buf, sizeof buf, "\n[c13] signal %d in class %c scenario %.1200s\n", sig, (char)g_hc.cls.load(), sc.c_str());
    if (n > 0) { ssize_t w = write(2, buf, (size_t)std::min<int>(n, (int)sizeof buf - 1)); (void)w; }
    signal(sig, SIG_DFL); raise(sig);
}

static void observer(int id, const void*, long) { if (id == 171) g_exec.add(0, -1, 0); }

int main(int argc, char** argv) {
    signal(SIGABRT, on_crash); signal(SIGSEGV, on_crash); signal(SIGBUS, on_crash);
    Args a = standard_init(argc, argv, "c13");
    Result& R = result();
    long cases = a.num("cases", 2000);
    g_light = (R.variant == "tsan") || a.has("light");
    std::string mode = R.mode == "default" ? "mix" : R.mode;
    tbb::global_control gc(tbb::global_control::max_allowed_parallelism, 16);
    Rng top(mix(R.seed, 0xC13));
    // never destroyed: the pool threads stay alive (blocked) until the process exits
    static Engine* engine = new Engine; Engine& E = *engine;
    set_point_observer(observer);
    {   // the aggregator hooks compiled into this translation unit must be live
        PQ<El<F_PLAIN>> q0; do_op(q0, K_PUSH, mkval(1, 1)); do_op(q0, K_TRY_POP, 0);
        if (hook_count(170) < 2 || hook_count(171) < 2) { fprintf(stderr, "[c13] aggregator verification hooks are not compiled in\n"); R.stat("no_hooks"); R.write(); return 2; }
    }
    WatchdogCfg wc; wc.hard_limit_s = mode == "A" ? 700.0 : 300.0;      // the verdicts are quiescence / CPU-time spin-stall; this only bounds an inconclusive stall
    watchdog_start(wc, on_hang);
    for (long k = 0; k < cases; k++) {
        char cls;
        if (mode == "mix") { static const char rot[] = "LLLKLLGLLLLKLLLSLLKLLGLLLLKLLLLLLKLGLLLL"; cls = rot[k % (sizeof rot - 1)]; }
        else cls = mode[0];
        Rng r(mix(top.next(), (uint64_t)k));
        switch (cls) {
        case 'L': case 'K': case 'G': case 'A': { Plan p = gen_plan(r, cls, k / 3 + (long)(R.seed % 11)); run_case(E, p, r); break; }
        case 'S': { Plan p = gen_stress(r); run_case(E, p, r); break; }
        default: fprintf(stderr, "unknown mode %s\n", mode.c_str()); return 2;
        }
        progress();
    }
    watchdog_stop();
    R.stat("hook_delays", (long long)perturb().delays.load());
    R.write();
    return 0;
}
