// C07: parallel_pipeline - every item passes every filter exactly once and in stage order; serial filters never run two
// invocations at once; all serial_in_order filters see one common order (that of the first serial_in_order filter); at no
// moment more than max_number_of_live_tokens items are in flight; the call returns only after end of input was signalled
// and every emitted item left the last filter.
//
// Scenario = one random pipeline: 1-7 filters of every mode mix (incl. parallel / out-of-order input filters), token limit
// from {1,2,3,4,8,64} / 1..40 / huge, 0..~600 items, item types per link drawn from {int, Unit*, Fat (allocator path),
// Small (packed into void*)}, optionally nullptr ("anonymous") items on a pointer link, per-(item,stage) delays drawn from
// seven patterns (stragglers, reversed windows, slow serial stage...) so that late items overtake early ones and tokens park
// far from low_token. 1-3 driver threads run pipelines at once in one hot arena of 1-16 slots under hook-driven delays.
//
// Monitors (no locks, relaxed atomics, plain state where TSan should see the edge):
//  * per (filter,item) cell: invocation count, entry/exit stamp, thread
//  * per item: next expected stage (stage order) and a plain "trail" word written by stage k and read by stage k+1
//  * per serial filter: `inside` counter and a PLAIN position counter + order log (a serial filter may keep unsynchronised
//    state - that is what "one at a time" is for - so TSan checks exclusion + happens-before between consecutive invocations)
//  * live: ++ inside the input filter just before it returns an item, -- at the end of the last filter (observed <= real)
//  * completed-body counter snapshot at return and again at the end of the evaluation (nothing may run after the return)
#define VRT_IMPL
#include "vrt_tbb.h"
#include <oneapi/tbb/parallel_pipeline.h>
#include <oneapi/tbb/task_arena.h>
#include <oneapi/tbb/task_group.h>
#include <oneapi/tbb/global_control.h>
#include <memory>
#include <tuple>
#include <climits>
#if VRT_ASAN
#include <sanitizer/lsan_interface.h>
#endif

using namespace vrt;
using tbb::filter_mode;
static constexpr auto RLX = std::memory_order_relaxed;

static std::atomic<uint64_t> g_seq{1};
static bool g_light = false;                 // tsan: no global stamps (they would add happens-before edges)
static inline uint64_t stamp() { return g_light ? 0 : g_seq.fetch_add(1, RLX); }
template <class T> static inline void atomic_max(std::atomic<T>& a, T v) { T c = a.load(RLX); while (v > c && !a.compare_exchange_weak(c, v, RLX)) {} }

// ---- process-wide evidence counters
struct Glob {
    std::atomic<long long> bodies{0}, items{0}, overtakes{0}, scen_overtake{0}, limit_reached{0}, scen_overlap{0}, anon_items{0}, optional_items{0},
        optional_dropped{0}, scen_zero{0}, scen_single{0}, scen_parallel_input{0}, scen_ooo_input{0}, scen_typed{0}, scen_nulls{0}, scen_huge_tokens{0},
        parked{0}, grows{0}, ooo_reordered{0}, scen_ctx{0};
    std::atomic<long long> max_park{0}, max_live{0}, max_bodies{0}, max_threads{0}, max_grow{0};
} G;
static void observer(int id, const void*, long arg) {
    if (id == 110) { G.parked.fetch_add(1, RLX); atomic_max(G.max_park, (long long)arg); }
    else if (id == 111 && arg > 4) { G.grows.fetch_add(1, RLX); atomic_max(G.max_grow, (long long)arg); }   // 4 = initial size (constructor)
}

// ---------------------------------------------------------------------------------------------- scenario
struct Scen;
struct Unit { int id = 0; std::atomic<int> next_stage{0}; long trail = 0; std::atomic<bool> optional{false}; };
struct Cell { std::atomic<int> count{0}; uint64_t in = 0, out = 0; int thread = -1; };
struct Filt {
    filter_mode mode = filter_mode::parallel; bool serial = false, ordered = false;
    std::unique_ptr<Cell[]> cell;
    std::atomic<int> inside{0}, max_inside{0}, anon{0};
    int npos = 0; std::unique_ptr<int[]> order; int cap = 0;     // plain state of the filter (TSan watches it for serial filters)
    std::atomic<int> par_calls{0};                               // invocation count of a parallel filter
};
enum { T_INT = 0, T_PTR = 1, T_FAT = 2, T_SMALL = 3 };
static const char* type_names = "ipfs";
struct Small { int16_t id; uint8_t tag; uint8_t z; };
struct Fat {
    Scen* s; int id; uint64_t check; long pad[3];
    Fat(Scen* s_, int id_);
    Fat(const Fat& o); Fat(Fat&& o) noexcept; ~Fat();
    Fat& operator=(const Fat& o) { id = o.id; check = o.check; return *this; }
};

struct Scen {
    uint64_t seed = 0; int nf = 1, N = 0; size_t tokens = 1; int conc = 0, drivers = 1; bool use_ctx = false;
    std::unique_ptr<Filt[]> filt; std::vector<int> link;        // link[i] = item type between filter i and i+1
    std::unique_ptr<Unit[]> units; Unit sentinel;
    bool nulls = false; int anon_period = 0, anon_phase = 0;
    // delays
    int dpat = 0, dstage = 0, dperiod = 1, dphase = 0, dkind = 0, dwin = 8; unsigned diters = 0, dden = 4; uint64_t dseed = 0;
    // run-time state
    std::atomic<int> next{0}, live{0}, maxlive{0}, total_inside{0}, max_total{0}, stop_calls{0}, anon_emitted{0}, anon_optional{0};
    std::atomic<long> completed{0}, fat_live{0}, fat_made{0};
    std::atomic<uint64_t> tmask{0};
    std::atomic<bool> returned{false};
    std::atomic<int> fails{0}; std::string fail_first; std::mutex fm;
    bool poisoned = false;                                       // never free: bodies may still touch it

    bool is_anon(int it) const { return nulls && it % anon_period == anon_phase; }
    long tv(int id, int k) const { return (long)mix(seed ^ (uint64_t)id * 0x9E37u, (uint64_t)k + 1); }
    void fail(const std::string& key, const std::string& what) {
        int n = fails.fetch_add(1);
        if (n == 0) { std::lock_guard<std::mutex> l(fm); fail_first = key + "|" + what; }
        // a broken pipeline may re-run bodies for ever (that is "progress" for the watchdog): give the verdict from inside
        if (n == 5000 && !returned.load(RLX)) {
            std::string f; { std::lock_guard<std::mutex> l(fm); f = fail_first; }
            result().violation(f.substr(0, f.find('|')), f.substr(f.find('|') + 1) + " (and 5000 more failed checks while parallel_pipeline was still running; last: " + key + ": " + what + ")", describe());
            result().finish_and_exit(3);
        }
    }
    std::string modes() const { std::string m; for (int i = 0; i < nf; i++) m += filt[i].mode == filter_mode::parallel ? 'P' : filt[i].ordered ? 'I' : 'O'; return m; }
    std::string types() const { std::string t; for (int x : link) t += type_names[x]; return t; }
    std::string describe() const {
        Json j; j.obj(); j.kv("scenario_seed", (unsigned long long)seed); j.kv("filters", modes()); j.kv("link_types", types()); j.kv("tokens", (unsigned long long)tokens);
        j.kv("items", N); j.kv("arena", conc); j.kv("drivers", drivers); j.kv("null_items", nulls); j.kv("delay_pattern", dpat); j.kv("delay_stage", dstage);
        j.kv("replay", "c07 --one " + std::to_string(seed) + " --conc " + std::to_string(conc) + " --repeat 2000"); j.end_obj(); return j.s;
    }
    void delay(int fi, int id);
    void stage(int fi, int id);
    void stop_call();
    void evaluate(uint64_t ret, long comp_at_return, int inside_at_return, Glob& g, uint64_t& sig, long& overtakes, int& threads);
};

Fat::Fat(Scen* s_, int id_) : s(s_), id(id_), check(mix(s_->seed, (uint64_t)(int64_t)id_)) { s->fat_live.fetch_add(1, RLX); s->fat_made.fetch_add(1, RLX); }
Fat::Fat(const Fat& o) : s(o.s), id(o.id), check(o.check) { s->fat_live.fetch_add(1, RLX); }
Fat::Fat(Fat&& o) noexcept : s(o.s), id(o.id), check(o.check) { s->fat_live.fetch_add(1, RLX); }
Fat::~Fat() { s->fat_live.fetch_sub(1, RLX); }

// item encodings. ids: 0..N-1 real, -1 anonymous (nullptr on a pointer link), -2 the value returned together with stop(), -3 damaged
template <class T> struct Codec;
template <> struct Codec<int> { static int enc(Scen&, int id) { return id; } static int dec(Scen&, const int& v) { return v; } };
template <> struct Codec<Unit*> {
    static Unit* enc(Scen& s, int id) { return id >= 0 && id < s.N ? &s.units[id] : id == -1 ? nullptr : &s.sentinel; }
    static int dec(Scen& s, Unit* const& p) {
        if (!p) return -1; if (p == &s.sentinel) return -2;
        if (s.N && p >= &s.units[0] && p < &s.units[0] + s.N && p->id == (int)(p - &s.units[0])) return p->id;
        return -3;
    }
};
template <> struct Codec<Fat> { static Fat enc(Scen& s, int id) { return Fat(&s, id); } static int dec(Scen& s, const Fat& f) { return f.s == &s && f.check == mix(s.seed, (uint64_t)(int64_t)f.id) ? f.id : -3; } };
template <> struct Codec<Small> { static Small enc(Scen&, int id) { return Small{ (int16_t)id, 0xA5, 0 }; } static int dec(Scen&, const Small& v) { return v.tag == 0xA5 && v.z == 0 ? v.id : -3; } };

static inline void apply_delay(int kind, unsigned amount) {
    switch (kind) {
    case 0: spin_iters(amount); break;
    case 1: for (unsigned i = 0; i <= amount / 30000 && i < 4; i++) sched_yield(); break;
    default: sleep_us(std::min(300u, 5 + amount / 400)); break;
    }
}
void Scen::delay(int fi, int id) {
    uint64_t h = mix(dseed, (uint64_t)(id + 8) * 16 + fi);
    switch (dpat) {
    case 0: break;
    case 1: case 2: if (h % dden == 0) apply_delay(dkind, (unsigned)((h >> 20) % (diters + 1))); break;           // sparse short / long
    case 3: if (fi == dstage && id >= 0 && id % dperiod == dphase) apply_delay(dkind, diters);                   // stragglers at one stage
            else if (h % 16 == 0) spin_iters((unsigned)(h >> 20) % 800); break;
    case 4: if (fi == dstage && id >= 0) apply_delay(0, (unsigned)(dwin - 1 - id % dwin) * diters); break;       // every window arrives reversed
    case 5: if (fi == dstage) apply_delay(dkind == 1 ? 1 : 0, diters); break;                                    // one slow stage: a queue builds up in front of it
    default: if (h % 3 == 0) sched_yield(); break;
    }
}

void Scen::stage(int fi, int id) {
    Filt& f = filt[fi];
    int ins = f.inside.fetch_add(1, RLX) + 1;
    if (f.serial && ins != 1) fail("c07.serial.overlap", "filter " + std::to_string(fi) + " (" + (f.ordered ? "serial_in_order" : "serial_out_of_order") + ") entered while " + std::to_string(ins - 1) + " other invocation(s) of it were running (item " + std::to_string(id) + ")");
    if (ins > f.max_inside.load(RLX)) atomic_max(f.max_inside, ins);
    int tot = total_inside.fetch_add(1, RLX) + 1;
    if (tot > max_total.load(RLX)) atomic_max(max_total, tot);
    uint64_t in = stamp();
    int ord = thread_ordinal();
    uint64_t bit = 1ull << (ord & 63);
    if (!(tmask.load(RLX) & bit)) tmask.fetch_or(bit, RLX);
    if (nf == 1) { int l = live.fetch_add(1, RLX) + 1; if (l > maxlive.load(RLX)) atomic_max(maxlive, l); }
    bool ok = !(id < -1 || id >= N || (id == -1 && !nulls) || (id >= 0 && is_anon(id)));
    if (!ok) fail("c07.items.phantom-item", "filter " + std::to_string(fi) + " was handed a value that the input filter never emitted as an item (decoded id " + std::to_string(id) + "; -2 = the value returned with stop(), -3 = damaged)");
    Unit* u = nullptr; Cell* c = nullptr;
    if (ok && id >= 0) {
        u = &units[id]; c = &f.cell[id];
        if (c->count.fetch_add(1, RLX) != 0) fail("c07.items.duplicate-at-filter", "item " + std::to_string(id) + " passed filter " + std::to_string(fi) + " more than once");
        int ns = u->next_stage.load(RLX);
        if (ns != fi) fail("c07.items.stage-order", "item " + std::to_string(id) + " entered filter " + std::to_string(fi) + " after completing " + std::to_string(ns) + " filter(s)");
        else if (u->trail != tv(id, fi)) fail("c07.items.payload-not-visible", "item " + std::to_string(id) + ": the word written by filter " + std::to_string(fi - 1) + " is not visible in filter " + std::to_string(fi));
        c->in = in; c->thread = ord;
    } else if (ok) f.anon.fetch_add(1, RLX);
    if (f.serial) { int p = f.npos; if (p < f.cap) f.order[p] = ok ? id : -3; f.npos = p + 1; }
    else f.par_calls.fetch_add(1, RLX);
    delay(fi, id);
    if (u) { u->trail = tv(id, fi + 1); u->next_stage.store(fi + 1, RLX); }
    uint64_t out = stamp(); if (c) c->out = out;
    if (nf > 1 && fi == 0) {
        // an item whose input invocation ends after end of input was signalled (parallel input filter only) is not "emitted before that"
        if (!f.serial && stop_calls.load(RLX) > 0) { if (u) u->optional.store(true, RLX); else anon_optional.fetch_add(1, RLX); }
        int l = live.fetch_add(1, RLX) + 1; if (l > maxlive.load(RLX)) atomic_max(maxlive, l);
    }
    if (nf == 1 || fi == nf - 1) live.fetch_sub(1, RLX);
    total_inside.fetch_sub(1, RLX);
    f.inside.fetch_sub(1, RLX);
    completed.fetch_add(1, RLX);
    progress();
}
void Scen::stop_call() {
    Filt& f = filt[0];
    int ins = f.inside.fetch_add(1, RLX) + 1;
    if (f.serial && ins != 1) fail("c07.serial.overlap", "serial input filter: the invocation that signals end of input overlapped another invocation");
    stop_calls.fetch_add(1, RLX);
    f.inside.fetch_sub(1, RLX);
}

// ---- bodies
template <class Out> struct InBody {
    Scen* s;
    Out operator()(tbb::flow_control& fc) const {
        if (s->filt[0].serial && s->stop_calls.load(RLX) > 0) s->fail("c07.input.invoked-after-stop", "serial input filter invoked again after it had called flow_control::stop()");
        if (s->returned.load(RLX)) s->fail("c07.return.before-all-items-finished", "input filter invoked after parallel_pipeline returned");
        int it = s->next.fetch_add(1, RLX);
        if (it >= s->N) { s->stop_call(); fc.stop(); return Codec<Out>::enc(*s, -2); }
        int id = s->is_anon(it) ? -1 : it;
        if (id < 0) s->anon_emitted.fetch_add(1, RLX);
        s->stage(0, id);
        return Codec<Out>::enc(*s, id);
    }
};
template <class In, class Out> struct MidBody {
    Scen* s; int fi;
    Out operator()(In x) const { int id = Codec<In>::dec(*s, x); s->stage(fi, id); return Codec<Out>::enc(*s, id); }
};
template <class In> struct LastBody {
    Scen* s; int fi;
    void operator()(In x) const { int id = Codec<In>::dec(*s, x); s->stage(fi, id); }
};
struct OnlyBody {
    Scen* s;
    void operator()(tbb::flow_control& fc) const {
        if (s->filt[0].serial && s->stop_calls.load(RLX) > 0) s->fail("c07.input.invoked-after-stop", "serial single filter invoked again after it had called flow_control::stop()");
        int it = s->next.fetch_add(1, RLX);
        if (it >= s->N) { s->stop_call(); fc.stop(); return; }
        s->stage(0, it);
    }
};

template <class T> struct Tag { using type = T; };
template <class F> static void with_type(int t, F&& f) {
    switch (t) { case T_INT: f(Tag<int>{}); break; case T_PTR: f(Tag<Unit*>{}); break; case T_FAT: f(Tag<Fat>{}); break; default: f(Tag<Small>{}); break; }
}
static tbb::filter<void, void> build_chain(Scen& s) {
    if (s.nf == 1) return tbb::make_filter<void, void>(s.filt[0].mode, OnlyBody{ &s });
    std::tuple<tbb::filter<void, int>, tbb::filter<void, Unit*>, tbb::filter<void, Fat>, tbb::filter<void, Small>> c;
    with_type(s.link[0], [&](auto t) { using T = typename decltype(t)::type; std::get<tbb::filter<void, T>>(c) = tbb::make_filter<void, T>(s.filt[0].mode, InBody<T>{ &s }); });
    for (int i = 1; i < s.nf - 1; i++)
        with_type(s.link[i - 1], [&](auto ta) { with_type(s.link[i], [&](auto tb) {
            using A = typename decltype(ta)::type; using B = typename decltype(tb)::type;
            auto& src = std::get<tbb::filter<void, A>>(c);
            tbb::filter<void, B> nw = src & tbb::make_filter<A, B>(s.filt[i].mode, MidBody<A, B>{ &s, i });
            src.clear();
            std::get<tbb::filter<void, B>>(c) = nw;
        }); });
    tbb::filter<void, void> whole;
    with_type(s.link[s.nf - 2], [&](auto ta) { using A = typename decltype(ta)::type; whole = std::get<tbb::filter<void, A>>(c) & tbb::make_filter<A, void>(s.filt[s.nf - 1].mode, LastBody<A>{ &s, s.nf - 1 }); });
    return whole;
}

// ---------------------------------------------------------------------------------------------- generator
static Scen* make_scen(uint64_t seed, int conc, int drivers, long maxn) {
    Scen* sp = new Scen; Scen& s = *sp; Rng r(seed);
    s.seed = seed; s.conc = conc; s.drivers = drivers;
    s.nf = r.chance(1, 12) ? 1 : 2 + (int)r.below(6);
    s.filt.reset(new Filt[s.nf]);
    bool classic = s.nf >= 3 && r.chance(1, 4);            // in_order, parallel..., in_order: the textbook shape, deepest parking
    for (int i = 0; i < s.nf; i++) {
        unsigned m = (unsigned)r.below(3);
        if (classic) m = (i == 0 || i == s.nf - 1) ? 1 : (r.chance(3, 4) ? 0 : m);
        Filt& f = s.filt[i];
        f.mode = m == 0 ? filter_mode::parallel : m == 1 ? filter_mode::serial_in_order : filter_mode::serial_out_of_order;
        f.serial = m != 0; f.ordered = m == 1;
    }
    unsigned tk = (unsigned)r.below(100);
    s.tokens = tk < 70 ? (size_t)r.pick(std::vector<int>{ 1, 2, 3, 4, 8, 64 }) : tk < 96 ? 1 + (size_t)r.below(40) : tk < 98 ? (size_t)1 << 20 : SIZE_MAX;
    unsigned nk = (unsigned)r.below(100);
    long n = nk < 15 ? (long)r.below(4) : nk < 75 ? (long)r.below(120) : nk < 97 ? (long)r.below(600) : (long)r.below(2500);
    s.N = (int)std::min(n, maxn);
    bool typed = r.chance(1, 2);
    for (int i = 0; i + 1 < s.nf; i++) s.link.push_back(typed ? (int)r.below(4) : T_INT);
    if (s.nf > 1 && s.link[0] == T_PTR && r.chance(1, 2)) { s.nulls = true; s.anon_period = 2 + (int)r.below(5); s.anon_phase = (int)r.below(s.anon_period); }
    s.use_ctx = r.chance(1, 5);
    s.units.reset(new Unit[s.N ? s.N : 1]);
    for (int i = 0; i < s.N; i++) { s.units[i].id = i; s.units[i].trail = s.tv(i, 0); }
    s.sentinel.id = -2;
    for (int i = 0; i < s.nf; i++) { Filt& f = s.filt[i]; f.cell.reset(new Cell[s.N ? s.N : 1]); f.cap = s.N + 8; f.order.reset(new int[f.cap]); }
    // delays
    unsigned dp = (unsigned)r.below(100);
    s.dpat = dp < 15 ? 0 : dp < 32 ? 1 : dp < 44 ? 2 : dp < 64 ? 3 : dp < 79 ? 4 : dp < 92 ? 5 : 6;
    s.dseed = r.next();
    s.dkind = (int)r.below(10) < 7 ? 0 : (int)r.below(2) + 1;
    // preferred stage for the shaped patterns: a non-ordered stage in front of a serial one
    std::vector<int> cand;
    for (int i = 0; i + 1 < s.nf; i++) if (!s.filt[i].ordered) for (int k = i + 1; k < s.nf; k++) if (s.filt[k].serial) { cand.push_back(i); break; }
    s.dstage = !cand.empty() && r.chance(4, 5) ? r.pick(cand) : (int)r.below(s.nf);
    size_t tk_eff = std::min<size_t>(s.tokens, 64);
    switch (s.dpat) {
    case 1: s.dden = 2 + (unsigned)r.below(6); s.diters = 200 + (unsigned)r.below(3000); break;
    case 2: s.dden = 5 + (unsigned)r.below(12); s.diters = 5000 + (unsigned)r.below(40000); break;
    case 3: s.dperiod = (int)std::max<size_t>(2, r.chance(1, 2) ? tk_eff : 2 + r.below(2 * tk_eff)); s.dphase = (int)r.below(s.dperiod); s.diters = 20000 + (unsigned)r.below(150000); break;
    case 4: s.dwin = (int)std::max<size_t>(2, std::min<size_t>(128, r.chance(1, 2) ? tk_eff : 2 + r.below(2 * tk_eff))); s.diters = 100 + (unsigned)r.below(1500); break;
    case 5: s.dstage = (int)r.below(s.nf); s.diters = 1000 + (unsigned)r.below(12000); break;
    default: break;
    }
    return sp;
}

// ---------------------------------------------------------------------------------------------- oracle after the return
void Scen::evaluate(uint64_t ret, long comp_at_return, int inside_at_return, Glob& g, uint64_t& sig, long& overtakes, int& threads) {
    if (stop_calls.load(RLX) == 0) fail("c07.return.before-end-of-input", "parallel_pipeline returned although the input filter never called flow_control::stop() (" + std::to_string(next.load()) + " input invocations, " + std::to_string(N) + " items planned)");
    if (inside_at_return != 0) fail("c07.return.before-all-items-finished", std::to_string(inside_at_return) + " filter invocation(s) still running when parallel_pipeline returned");
    int named = 0; for (int it = 0; it < N; it++) if (!is_anon(it)) named++;
    int anon_total = N - named;
    bool dropped = false;
    for (int fi = 0; fi < nf; fi++) {
        Filt& f = filt[fi];
        int seen = 0;
        for (int it = 0; it < N; it++) {
            if (is_anon(it)) continue;
            int c = f.cell[it].count.load(RLX);
            if (c > 1) fail("c07.items.duplicate-at-filter", "item " + std::to_string(it) + " passed filter " + std::to_string(fi) + " " + std::to_string(c) + " times");
            if (c == 0) {
                bool opt = fi > 0 && units[it].optional.load(RLX);
                if (!opt) fail("c07.items.missing-at-filter", "item " + std::to_string(it) + " never passed filter " + std::to_string(fi) + " (" + std::to_string(nf) + " filters " + modes() + ", tokens " + std::to_string(tokens) + ", " + std::to_string(N) + " items); it completed " + std::to_string(units[it].next_stage.load()) + " filter(s)");
                else dropped = true;
            } else {
                seen++;
                if (fi > 0 && filt[fi - 1].cell[it].count.load(RLX) == 0) fail("c07.items.stage-order", "item " + std::to_string(it) + " passed filter " + std::to_string(fi) + " but not filter " + std::to_string(fi - 1));
                if (!g_light) {
                    uint64_t o = f.cell[it].out;
                    if (o == 0 || o > ret) fail("c07.return.before-all-items-finished", "item " + std::to_string(it) + " left filter " + std::to_string(fi) + " at stamp " + std::to_string(o) + ", parallel_pipeline returned at stamp " + std::to_string(ret));
                    if (fi > 0 && f.cell[it].in < filt[fi - 1].cell[it].out) fail("c07.items.stage-order", "item " + std::to_string(it) + " entered filter " + std::to_string(fi) + " before it left filter " + std::to_string(fi - 1));
                }
            }
        }
        int an = f.anon.load(RLX), an_opt = fi > 0 ? anon_optional.load(RLX) : 0;
        if (an > anon_total) fail("c07.items.duplicate-at-filter", "filter " + std::to_string(fi) + " saw " + std::to_string(an) + " nullptr items, only " + std::to_string(anon_total) + " were emitted");
        if (an < anon_total - an_opt) fail("c07.items.missing-at-filter", "filter " + std::to_string(fi) + " saw " + std::to_string(an) + " of the " + std::to_string(anon_total) + " nullptr items emitted by the input filter");
        if (an < anon_total) dropped = true;
        int calls = f.serial ? f.npos : f.par_calls.load(RLX);
        if (f.serial && calls != seen + an)
            fail("c07.serial.overlap", "serial filter " + std::to_string(fi) + ": its unsynchronised position counter says " + std::to_string(calls) + " invocations, " + std::to_string(seen + an) + " took place (lost update = overlapping invocations)");
    }
    if (dropped) g.optional_dropped.fetch_add(1, RLX);
    // common order of the serial_in_order filters
    int first = -1;
    for (int fi = 0; fi < nf && !dropped; fi++) {
        Filt& f = filt[fi]; if (!f.ordered) continue;
        if (first < 0) { first = fi; continue; }
        Filt& f0 = filt[first];
        int n0 = std::min(f0.npos, f0.cap), n1 = std::min(f.npos, f.cap);
        int k = 0; while (k < n0 && k < n1 && f0.order[k] == f.order[k]) k++;
        if (k < n0 || k < n1) {
            std::string a, b; for (int q = std::max(0, k - 2); q < std::min(n0, k + 6); q++) a += std::to_string(f0.order[q]) + " "; for (int q = std::max(0, k - 2); q < std::min(n1, k + 6); q++) b += std::to_string(f.order[q]) + " ";
            fail("c07.order.in-order-differs", "serial_in_order filter " + std::to_string(fi) + " processed items in another order than serial_in_order filter " + std::to_string(first) + " (pipeline " + modes() + ", tokens " + std::to_string(tokens) + "): first difference at position " + std::to_string(k) + "; filter " + std::to_string(first) + ": ... " + a + "; filter " + std::to_string(fi) + ": ... " + b);
        }
    }
    int ml = maxlive.load(RLX);
    if ((size_t)ml > tokens) fail("c07.tokens.live-exceeds-limit", std::to_string(ml) + " items were in flight at once (emitted by the input filter and not yet through the last filter), max_number_of_live_tokens = " + std::to_string(tokens) + ", pipeline " + modes());
    if (live.load(RLX) != 0 && !fails.load() && !dropped) fail("c07.items.missing-at-filter", "live counter is " + std::to_string(live.load()) + " after the return");
    long fl = fat_live.load(RLX);
    if (fl != 0) fail("c07.items.value-object-balance", std::to_string(fl) + " by-value item object(s) constructed by the pipeline were not destroyed when it returned (" + std::to_string(fat_made.load()) + " made by the filters)");
    for (int it = 0; it < N; it++) if (!is_anon(it) && !dropped) {
        if (units[it].next_stage.load(RLX) == nf && units[it].trail != tv(it, nf)) { fail("c07.items.payload-not-visible", "item " + std::to_string(it) + ": word written by the last filter not visible after the return"); break; }
    }
    // ---- evidence
    overtakes = 0; sig = mix(0xC07, N); sig = mix(sig, tokens);
    for (int fi = 0; fi < nf; fi++) {
        Filt& f = filt[fi]; sig = mix(sig, (uint64_t)f.mode);
        if (!f.serial) continue;
        int n = std::min(f.npos, f.cap);
        bool reordered = false;
        for (int p = 0; p < n; p++) { sig = mix(sig, (uint64_t)(f.order[p] + 4)); if (p && f.order[p] >= 0 && f.order[p - 1] > f.order[p]) reordered = true; }
        if (reordered) g.ooo_reordered.fetch_add(1, RLX);
        if (f.ordered && fi > 0 && !g_light)
            for (int p = 0; p + 1 < n; p++) { int a = f.order[p], b = f.order[p + 1]; if (a >= 0 && b >= 0 && a < N && b < N && filt[fi - 1].cell[b].out < filt[fi - 1].cell[a].out) overtakes++; }
    }
    threads = __builtin_popcountll(tmask.load(RLX));
    sig = mix(sig, (uint64_t)overtakes * 64 + ml);
    (void)comp_at_return;
}

// ---------------------------------------------------------------------------------------------- main
static std::mutex g_keeper_m; static Keeper* g_keeper = nullptr;

int main(int argc, char** argv) {
    Args a = standard_init(argc, argv, "c07");
    Result& R = result();
    long cases = a.num("cases", 2000);
    g_light = (R.variant == "tsan") || a.has("light");
    int maxdrivers = (int)a.num("drivers", 3);
    bool hot = a.num("hot", 1) != 0;
    int fixed_conc = (int)a.num("conc", 0);
    long maxn = a.num("maxn", 2500);
    std::vector<int> ids = { 110, 111, 112, 113, 114, 115, 116, 117, 110, 112, 113, 114, 116, 117, 8, 10, 3, 40 };
    Rng top(mix(R.seed, 0xC07));
    tbb::global_control gc(tbb::global_control::max_allowed_parallelism, 16);
    set_point_observer(observer);

    std::atomic<Scen*> current[8]; for (auto& c : current) c.store(nullptr);
    WatchdogCfg wc;
    watchdog_start(wc, [&](const HangInfo& hi) {
        std::string key = hi.quiescent ? "c07.hang.quiescent" : hi.spin_stall ? "c07.hang.spin-stall" : "";
        Scen* s = nullptr; for (auto& c : current) if (Scen* x = c.load()) if (!x->returned.load()) { s = x; break; }
        std::string d = "parallel_pipeline did not return: no progress for " + std::to_string(hi.stalled_for) + "s";
        if (s) d += "; input invocations " + std::to_string(s->next.load()) + "/" + std::to_string(s->N) + ", stop signalled " + std::to_string(s->stop_calls.load()) + "x, bodies running " + std::to_string(s->total_inside.load()) +
                    ", items in flight " + std::to_string(s->live.load()) + ", bodies completed " + std::to_string(s->completed.load());
        d += "; threads: " + hi.threads + "\n" + rings_dump();
        // every body is non-blocking and the input is finite, so the awaited return is always satisfiable
        if (key.empty() || !s) { R.inconclusive++; fprintf(stderr, "[c07] watchdog: inconclusive stall\n%s\n", d.c_str()); R.finish_and_exit(4); }
        R.violation(key, d, s->describe());
        R.finish_and_exit(3);
    });
    // vrt lacks this: the keeper thread never sleeps for long, so a wedged pipeline would never look quiescent. When nothing
    // completed for 2 s the keeper is told to stop; a healthy run merely cools down for the rest of the batch.
    std::atomic<bool> judge_stop{false};
    std::thread judge([&] {
        uint64_t last = progress_count(); double t = now_s();
        while (!judge_stop.load()) {
            sleep_us(100000);
            uint64_t p = progress_count();
            if (p != last) { last = p; t = now_s(); continue; }
            if (now_s() - t > 2.0) { std::lock_guard<std::mutex> l(g_keeper_m); if (g_keeper) g_keeper->stop.store(true); }
        }
    });

    auto run_one = [&](Scen& s, tbb::task_arena& A, int d, Rng& r, bool perturb_here) {
        tbb::filter<void, void> chain = build_chain(s);
        current[d].store(&s);
        if (perturb_here) perturb_random(r, ids);
        if (s.use_ctx) { tbb::task_group_context ctx; A.execute([&] { tbb::parallel_pipeline(s.tokens, chain, ctx); }); }
        else A.execute([&] { tbb::parallel_pipeline(s.tokens, chain); });
        int inside_at_return = s.total_inside.load(RLX);
        long comp = s.completed.load(RLX);
        uint64_t ret = stamp();
        s.returned.store(true, RLX);
        current[d].store(nullptr);
        chain.clear();
        uint64_t sig = 0; long overtakes = 0; int threads = 0;
        s.evaluate(ret, comp, inside_at_return, G, sig, overtakes, threads);
        long comp2 = s.completed.load(RLX);
        if (comp2 != comp || s.total_inside.load(RLX) != 0) { s.poisoned = true; s.fail("c07.return.before-all-items-finished", std::to_string(comp2 - comp) + " filter invocation(s) completed after parallel_pipeline had returned"); }
        if (s.fails.load()) s.poisoned = true;
        // ---- bookkeeping
        R.scenarios++;
        int ml = s.maxlive.load(RLX), mt = s.max_total.load(RLX);
        G.bodies.fetch_add(comp, RLX); G.items.fetch_add(s.N, RLX); G.overtakes.fetch_add(overtakes, RLX);
        if (overtakes) G.scen_overtake.fetch_add(1, RLX);
        if ((size_t)ml == s.tokens && s.nf > 1) G.limit_reached.fetch_add(1, RLX);
        if (mt >= 2) G.scen_overlap.fetch_add(1, RLX);
        if (s.N == 0) G.scen_zero.fetch_add(1, RLX);
        if (s.nf == 1) G.scen_single.fetch_add(1, RLX);
        if (!s.filt[0].serial) G.scen_parallel_input.fetch_add(1, RLX); else if (!s.filt[0].ordered) G.scen_ooo_input.fetch_add(1, RLX);
        if (s.nulls) { G.scen_nulls.fetch_add(1, RLX); G.anon_items.fetch_add(s.anon_emitted.load(), RLX); }
        if (s.tokens > 64) G.scen_huge_tokens.fetch_add(1, RLX);
        if (s.use_ctx) G.scen_ctx.fetch_add(1, RLX);
        for (int x : s.link) if (x != T_INT) { G.scen_typed.fetch_add(1, RLX); break; }
        for (int i = 0; i < s.N; i++) if (s.units[i].optional.load(RLX)) G.optional_items.fetch_add(1, RLX);
        atomic_max(G.max_live, (long long)ml); atomic_max(G.max_bodies, (long long)mt); atomic_max(G.max_threads, (long long)threads);
        bool nontrivial = threads >= 2 && s.N >= 2;
        if (nontrivial) { R.nontrivial++; R.signature(sig); }
        if (s.fails.load()) {
            std::string key = s.fail_first.substr(0, s.fail_first.find('|')), det = s.fail_first.substr(s.fail_first.find('|') + 1);
            R.violation(key, det + " (" + std::to_string(s.fails.load()) + " failed checks in this pipeline)\n" + (g_light ? std::string() : rings_dump(8)), s.describe());
        } else if (nontrivial && overtakes > 2 && mt >= 3 && s.nf >= 3 && s.tokens <= 64 && R.want_sample()) {
            Json j; j.obj(); j.kv("filters", s.modes()); j.kv("link_types", s.types()); j.kv("tokens", (unsigned long long)s.tokens); j.kv("items", s.N); j.kv("arena_concurrency", s.conc);
            j.kv("threads_participating", threads); j.kv("max_items_in_flight", ml); j.kv("max_bodies_running_at_once", mt); j.kv("overtakes_before_ordered_filters", overtakes); j.kv("delay_pattern", s.dpat);
            for (int fi = 1; fi < s.nf; fi++) if (s.filt[fi].ordered && !s.filt[fi - 1].ordered) {
                // arrival order (exit stamp of the previous filter) of the first items this ordered filter processed
                std::vector<std::pair<uint64_t, int>> arr; for (int p = 0; p < std::min(s.filt[fi].npos, 24); p++) { int id = s.filt[fi].order[p]; if (id >= 0) arr.push_back({ s.filt[fi - 1].cell[id].out, id }); }
                std::sort(arr.begin(), arr.end());
                j.key("ordered_filter").val(fi); j.key("arrival_order").arr(); for (auto& e : arr) j.val(e.second); j.end_arr();
                j.key("processing_order").arr(); for (int p = 0; p < std::min(s.filt[fi].npos, 24); p++) j.val(s.filt[fi].order[p]); j.end_arr();
                break;
            }
            j.end_obj(); R.sample(j.s);
        }
        progress();
    };

    if (a.has("one")) {   // replay of one scenario seed
        uint64_t sd = strtoull(a.str("one").c_str(), nullptr, 0); long rep = a.num("repeat", 200); int conc = fixed_conc ? fixed_conc : 8;
        tbb::task_arena A(conc, 1); A.initialize();
        std::unique_ptr<Keeper> keeper; if (conc > 1) keeper.reset(new Keeper(A, 4, 40));
        Rng r(mix(R.seed, 77));
        for (long k = 0; k < rep; k++) { Scen* s = make_scen(sd, conc, 1, maxn); run_one(*s, A, 0, r, true); if (!s->poisoned) delete s; }
        keeper.reset(); perturb().clear();
        cases = 0;
    }

    long done = 0;
    while (done < cases) {
        int conc = fixed_conc ? fixed_conc : (int)top.pick(std::vector<int>{ 1, 2, 2, 3, 4, 4, 8, 8, 16, 16 });
        tbb::task_arena A(conc, 1); A.initialize();
        std::unique_ptr<Keeper> keeper;
        if (hot && conc > 1) { keeper.reset(new Keeper(A, 4, 40)); std::lock_guard<std::mutex> l(g_keeper_m); g_keeper = keeper.get(); }
        int drivers = 1 + (int)top.below(maxdrivers);
        long batch = std::min<long>(cases - done, 30 + (long)top.below(60));
        std::atomic<long> next{0};
        std::vector<std::thread> th;
        uint64_t bseed = top.next();
        for (int d = 0; d < drivers; d++) th.emplace_back([&, d] {
            Rng r(mix(bseed, d));
            for (;;) {
                long k = next.fetch_add(1); if (k >= batch) break;
                Scen* s = make_scen(mix(bseed, 1000 + k), conc, drivers, maxn);
                run_one(*s, A, d, r, d == 0);
                if (!s->poisoned) delete s;
            }
        });
        for (auto& t : th) t.join();
        done += batch;
        { std::lock_guard<std::mutex> l(g_keeper_m); g_keeper = nullptr; }
        keeper.reset();
        perturb().clear();
    }
    judge_stop.store(true); judge.join();
    watchdog_stop();
    R.stat("bodies", G.bodies.load()); R.stat("items", G.items.load()); R.stat("overtakes_before_ordered_filters", G.overtakes.load());
    R.stat("scenarios_with_overtakes", G.scen_overtake.load()); R.stat("scenarios_token_limit_reached", G.limit_reached.load());
    R.stat("scenarios_bodies_overlapped", G.scen_overlap.load()); R.stat("scenarios_zero_items", G.scen_zero.load()); R.stat("scenarios_single_filter", G.scen_single.load());
    R.stat("scenarios_parallel_input", G.scen_parallel_input.load()); R.stat("scenarios_out_of_order_input", G.scen_ooo_input.load());
    R.stat("scenarios_non_int_item_types", G.scen_typed.load()); R.stat("scenarios_with_nullptr_items", G.scen_nulls.load()); R.stat("nullptr_items", G.anon_items.load());
    R.stat("scenarios_huge_token_limit", G.scen_huge_tokens.load()); R.stat("scenarios_user_context", G.scen_ctx.load());
    R.stat("items_emitted_after_stop_signal", G.optional_items.load()); R.stat("scenarios_optional_item_dropped", G.optional_dropped.load());
    R.stat("serial_filters_processing_out_of_emission_order", G.ooo_reordered.load());
    R.stat("tokens_parked", G.parked.load()); R.stat("buffer_grows_beyond_initial", G.grows.load());
    R.stat_max("max_park_distance", G.max_park.load()); R.stat_max("max_buffer_size_requested", G.max_grow.load()); R.stat_max("max_items_in_flight", G.max_live.load());
    R.stat_max("max_bodies_running_at_once", G.max_bodies.load()); R.stat_max("max_threads_in_one_pipeline", G.max_threads.load());
    R.stat("hook_delays", (long long)perturb().delays.load());
    R.write();
#if VRT_ASAN
    // vrt's per-thread hook records are reachable only through a static vector that is destroyed before LeakSanitizer's
    // end-of-process check; check now, while they are still reachable (this also disables the later check)
    __lsan_do_leak_check();
#endif
    return 0;
}
