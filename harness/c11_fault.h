// C11 fault enumeration with a single growing thread.
//   S       a constructor or an allocation is made to throw inside call k (every k of the sequence, position inside the call varied);
//           nothing grows afterwards. Strict: exception reaches the caller, earlier elements untouched, at(i) works or throws for every
//           i < size(), nothing outside allocated storage is touched, the vector is destructible and returns all storage.
//   Salloc  the same followed by further growth calls of the same thread: this is where the known defect
//           cv.abandoned-range-starves-segment-waiters lives (a later call spins for a segment nobody will ever allocate), so the class
//           runs in processes of its own; a wedge becomes a verdict through the watchdog. Everything else stays strict.
#pragma once
#include "c11_growth.h"

namespace c11 {

inline Plan gen_single_plan(Rng& r, int cls) {
    Plan p; p.cls = cls; p.seed = r.next(); p.nthreads = 1;
    Rng g(p.seed);
    uint64_t est = 0;
    gen_prefix(g, p, est);
    int big = g.chance(1, 2);
    int cnt = 3 + (int)g.below(6);
    uint64_t total = est;
    for (int i = 0; i < cnt; i++) { Op o = gen_op(g, total + 8, big); o.delay = 0; if (g.chance(1, 8)) { o.kind = K_GROW_VAL; o.arg = 1000 + g.below(6000); } total += op_growth(o, total); p.ops[0].push_back(o); }
    if (cls == 'a') {
        int np = 2 + (int)g.below(4);
        for (int i = 0; i < np; i++) {
            Op o = gen_op(g, total + 8, 0); o.delay = 0;
            unsigned x = (unsigned)g.below(100);
            if (x < 30) { o.kind = K_GTAL_VAL; o.arg = 0; }          // arg 0 here means "size()+1" (resolved when it runs)
            else if (x < 45) { o.kind = K_GTAL; o.arg = 1 + g.below(total + 2); }
            p.post.push_back(o);
        }
    }
    return p;
}

inline void run_single_fault(Engine& E, Rng& r, int cls, long case_index) {
    Result& R = result(); HangCtx& hc = hang_ctx();
    const std::string C = cls_name(cls);
    Plan p = gen_single_plan(r, cls);
    ExecCfg nofault{ cls, false, false, E.strict_gtal };
    uint64_t scn = ++E.scn;
    // dry run: how many in-vector constructions and allocations does each call make?
    std::vector<CallRec> dry;
    {
        CtxScope cx; Vec v; ThreadLocal& T = tl(); T = ThreadLocal{}; T.tid = 0;
        ThreadState& ts = E.ts[0]; ts.reset(mix(p.seed, 1));
        int cn = 0; for (auto& o : p.pre) exec_op(v, o, kPreTid, cn++, scn, ts, nofault);
        ts.recs.clear();
        int k = 0; for (auto& o : p.ops[0]) exec_op(v, o, 0, k++, scn, ts, nofault);
        dry = ts.recs;
        if (!ts.fail_what.empty()) { R.violation(key_of(cls, ts.fail_what), "fault-free dry run: " + ts.fail_detail, plan_json(p)); R.scenarios++; return; }
        T.tid = -1;
    }
    const int L = (int)p.ops[0].size();
    int k = (int)(case_index % L);
    int want = cls == 'a' ? (r.chance(3, 4) ? F_ALLOC : F_CTOR) : ((case_index / L) & 1 ? F_ALLOC : F_CTOR);
    int fk = F_NONE;
    for (int step = 0; step < L && fk == F_NONE; step++) {
        const CallRec& d = dry[(k + step) % L];
        long nc = d.ctors, na = d.allocs;
        if (want == F_CTOR ? nc > 0 : na > 0) fk = want; else if (want == F_CTOR ? na > 0 : nc > 0) fk = want == F_CTOR ? F_ALLOC : F_CTOR;
        if (fk != F_NONE) k = (k + step) % L;
    }
    if (fk == F_NONE) { R.stat(C + "_plans_without_any_fault_site"); return; }
    long events = fk == F_CTOR ? dry[k].ctors : dry[k].allocs;
    unsigned x = (unsigned)r.below(100);
    long pos = x < 30 ? 0 : x < 55 ? events - 1 : (long)r.below((uint64_t)events);
    p.fault = fk; p.fault_at = pos;
    p.ops[0].resize(k + 1);                           // the sequence ends with the failing call
    Json pj; pj.obj(); pj.key("plan").raw(plan_json(p)); pj.kv("failing_call", k); pj.kv(fk == F_CTOR ? "constructions_in_that_call" : "allocations_in_that_call", (long long)events); pj.end_obj();
    hc.begin(cls, pj.s);
    Verdict vd; Sweep sw, sw2;
    CtxScope cx;
    std::vector<const Elem*> addr_before; uint64_t size_before = 0; long post_calls = 0, post_exc = 0;
    ExecCfg armed{ cls, true, fk == F_ALLOC, E.strict_gtal };
    {
        Vec v; ThreadLocal& T = tl(); T = ThreadLocal{}; T.tid = 0;
        ThreadState& ts = E.ts[0]; ts.reset(mix(p.seed, 2)); ThreadState& tp = E.ts[kPreTid]; tp.reset(mix(p.seed, 3)); ThreadState& ta = E.ts[kPostTid]; ta.reset(mix(p.seed, 4));
        hc.phase.store(1);
        int cn = 0; for (auto& o : p.pre) exec_op(v, o, kPreTid, cn++, scn, tp, nofault);
        for (int i = 0; i < k; i++) { exec_op(v, p.ops[0][i], 0, i, scn, ts, nofault); progress(); }
        size_before = v.size();
        for (uint64_t i = 0; i < size_before; i++) addr_before.push_back(&v[i]);
        if (fk == F_CTOR) cx->ctor_arm.store(pos); else cx->alloc_arm.store(pos);
        CallRec fc = exec_op(v, p.ops[0][k], 0, k, scn, ts, armed);
        cx->ctor_arm.store(-1); cx->alloc_arm.store(-1);
        progress();
        bool fired = (fk == F_CTOR ? cx->ctor_fired.load() : cx->alloc_fired.load()) > 0;
        if (!fired) vd.fail("harness-fault-not-reached", "the armed fault did not fire (the dry run made " + std::to_string(events) + " such events in this call)");
        else if (fc.outcome == O_OK) vd.fail("exception-not-delivered", rec_str(fc) + " returned normally although the injected " + (fk == F_CTOR ? "constructor" : "allocation") + " exception was thrown inside it");
        else if (fk == F_CTOR && fc.outcome != O_BOOM) vd.fail("exception-changed", rec_str(fc) + ": the constructor threw Boom, the caller received " + outcome_names[fc.outcome]);
        if (!ts.fail_what.empty()) vd.fail(ts.fail_what, ts.fail_detail);
        if (!tp.fail_what.empty()) vd.fail(tp.fail_what, tp.fail_detail);
        R.stat(C + (fk == F_CTOR ? "_calls_failed_by_constructor" : "_calls_failed_by_allocation"));
        R.stat(C + "_failed_call_kind_" + kind_names[fc.kind]);
        // state after the failed call
        auto after_checks = [&](Sweep& s, const char* when) {
            uint64_t sz = v.size(), cap = v.capacity();
            if (sz < size_before) vd.fail("size-shrank-after-failed-call", std::string(when) + ": size() went from " + std::to_string(size_before) + " to " + std::to_string(sz));
            if (sz > cap) vd.fail("size-exceeds-capacity", std::string(when) + ": size() " + std::to_string(sz) + " > capacity() " + std::to_string(cap));
            sweep_at(v, *cx.c, vd, s, cls);
            for (uint64_t i = 0; i < size_before && i < sz; i++) {
                try { if (&v.at(i) != addr_before[i]) { vd.fail("element-address-changed", std::string(when) + ": index " + std::to_string(i) + " moved from " + hex64((uintptr_t)addr_before[i]) + " to " + hex64((uintptr_t)&v.at(i))); break; } }
                catch (std::exception& e) { vd.fail("earlier-element-lost", std::string(when) + ": at(" + std::to_string(i) + ") throws " + e.what() + " for an element appended by an earlier, successful call"); break; }
            }
            // elements of earlier successful calls keep their values; elements the failed call did construct have the requested value
            std::vector<const CallRec*> ok; for (auto& c : tp.recs) ok.push_back(&c); for (auto& c : ts.recs) ok.push_back(&c); for (auto& c : ta.recs) ok.push_back(&c);
            for (auto* c : ok) if (c->outcome == O_OK && c->kind != K_RESERVE) for (uint64_t j = 0; j < c->count; j++) {
                const Elem* e = &v[c->start + j];
                if (!e->sane() || e->v != expected_value(*c, j)) { vd.fail("wrong-value-after-failed-call", std::string(when) + ": " + rec_str(*c) + " element " + std::to_string(c->start + j) + " holds " + hex64(e->v) + "/" + hex64(e->chk)); return; }
            }
            uint64_t growth = op_growth(p.ops[0][k], size_before);
            if (fc.outcome != O_OK) for (uint64_t i = size_before; i < sz && i < size_before + growth; i++) {
                Region* rg = cx->find((uintptr_t)&v[i]); if (!rg) continue; Slot* sh = rg->shadow.load(); if (!sh) continue;
                size_t off = ((uintptr_t)&v[i] - rg->base.load()) / sizeof(Elem);
                if (sh[off].live.load()) {
                    CallRec tmp = fc; tmp.start = size_before;
                    if (v[i].v != expected_value(tmp, i - size_before) || !v[i].sane()) { vd.fail("constructed-with-wrong-value", std::string(when) + ": element " + std::to_string(i) + " constructed by the failed call holds " + hex64(v[i].v)); return; }
                }
            }
        };
        hc.phase.store(3);
        if (vd.ok()) after_checks(sw, "after the failed call");
        if (cls == 'a' && vd.ok()) {
            // further growth by the same thread: each call returns or throws
            hc.phase.store(2);
            ExecCfg post{ cls, false, true, E.strict_gtal };   // any standard exception is a legal answer now
            int n = 0;
            for (Op o : p.post) {
                if (o.kind == K_GTAL_VAL && o.arg == 0) o.arg = v.size() + 1;
                CallRec c = exec_op(v, o, kPostTid, n++, scn, ta, post); post_calls++; if (c.outcome != O_OK) post_exc++;
                progress();
            }
            hc.phase.store(3);
            if (!ta.fail_what.empty()) vd.fail(ta.fail_what, ta.fail_detail);
            if (vd.ok()) after_checks(sw2, "after further growth");
        }
        T.tid = -1;
    }   // destructor
    Ctx& c = *cx.c;
    if (c.live_regions(false) && !c.overflow.load()) vd.fail("storage-leaked-after-destruction", std::to_string(c.live_regions(false)) + " blocks were not returned to the allocator by the destructor");
    { std::lock_guard<std::mutex> l(c.m); for (auto& f : c.flags) vd.fail(f.first, f.second); }
    long dg = c.unconstructed_destroyed_garbage.load(), raw = sw.raw + sw2.raw;
    if (fk == F_ALLOC) {
        if (dg) { R.stat(C + "_unconstructed_slots_destroyed", dg); R.stat(C + "_scenarios_destroying_unconstructed_slots");
                  if (E.emit_uninit && first_time(key_of(cls, "unconstructed-slot-destroyed"))) R.violation(key_of(cls, "unconstructed-slot-destroyed"), "after an allocation failure the destructor ran on " + std::to_string(dg) + " slots that were neither constructed nor zero-filled", pj.s); }
        if (raw) { R.stat(C + "_unconstructed_slots_accessible", raw);
                   if (E.emit_uninit && first_time(key_of(cls, "unconstructed-slot-accessible"))) R.violation(key_of(cls, "unconstructed-slot-accessible"), "after an allocation failure at() hands out " + std::to_string(raw) + " slots below size() that are neither constructed nor zero-filled", pj.s); }
    } else {
        if (dg) vd.fail("raw-slot-after-ctor-throw-destroyed", "the destructor ran on " + std::to_string(dg) + " slots that were neither constructed nor zero-filled (only a constructor was made to throw)");
        if (raw) vd.fail("raw-slot-after-ctor-throw-accessible", "at() hands out " + std::to_string(raw) + " slots below size() that are neither constructed nor zero-filled (only a constructor was made to throw)");
    }
    R.scenarios++; R.nontrivial++;     // non-trivial by the rule of this class: the injected fault fired inside the chosen call
    R.signature(mix(mix((uint64_t)cls, (uint64_t)fk * 1000 + p.ops[0][k].kind), mix(seg_of(size_before + 1), (uint64_t)(pos == 0 ? 0 : pos == events - 1 ? 1 : 2) * 64 + seg_of(p.ops[0][k].arg + 1))));
    R.stat(C + "_scenarios"); R.stat(C + "_at_ok", sw.ok + sw2.ok); R.stat(C + "_at_threw", sw.threw + sw2.threw);
    R.stat(C + "_slots_zero_filled_inside_size", sw.zero + sw2.zero); R.stat(C + "_zero_filled_slots_destroyed", c.unconstructed_destroyed_zero.load());
    if (cls == 'a') { R.stat("Salloc_further_growth_calls", post_calls); R.stat("Salloc_further_growth_calls_that_threw", post_exc); }
    if (!vd.ok()) {
        if (vd.what == "harness-fault-not-reached") { R.stat(C + "_fault_not_reached"); R.nontrivial--; }
        else R.violation(key_of(cls, vd.what), vd.detail.substr(0, 1500), pj.s);
    } else if (R.want_sample() && (case_index % 7) == 0) {
        Json j; j.obj(); j.kv("class", C); j.kv("failing_call", std::string(kind_names[p.ops[0][k].kind]) + " arg " + std::to_string(p.ops[0][k].arg)); j.kv("fault", fk == F_CTOR ? "constructor" : "allocation"); j.kv("position", (long long)pos); j.kv("of", (long long)events);
        j.kv("size_before", (unsigned long long)size_before); j.kv("at_ok", sw.ok); j.kv("at_threw", sw.threw); j.kv("zero_filled", sw.zero); j.kv("raw", sw.raw); j.end_obj();
        R.sample(j.s);
    }
}

} // namespace c11
