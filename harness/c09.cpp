// C09: concurrent_queue and concurrent_bounded_queue are linearizable FIFO queues.
//
// Modes (--mode): mix (default: L S Q U G in rotation), L (short histories, WGL), S (long stress histories, aspect checks),
// Q / R / P (abort classes), U / B / G (throwing-constructor / page-allocation-failure classes).
// R, B and P contain known genuine defects that wedge the process; they run in processes of their own, and the wedge is
// turned into a verdict by the watchdog (quiescence / spin-stall + a harness-side predicate), never by a timeout.
#define VRT_IMPL
#include "vrt_tbb.h"
#include "c09_common.h"
#include "c09_run.h"
#include "c09_lin.h"
#include "c09_stress.h"
#include "c09_abort.h"
#include "c09_fault.h"
#include <csignal>

using namespace vrt;
using namespace c09;

static void on_hang(const HangInfo& hi) {
    Result& R = result();
    HangCtx& hc = hang_ctx();
    int cls = hc.cls.load();
    std::string kind = hi.quiescent ? "hang.quiescent" : hi.spin_stall ? "hang.spin-stall" : "";
    long pushed = hc.pushed.load(), popped = hc.popped.load(), cap = hc.cap.load();
    int bpop = hc.blocked_pop.load(), bpush = hc.blocked_push.load();
    std::string d = "no progress for " + std::to_string((int)hi.stalled_for) + " s (" + (hi.quiescent ? "quiescent: every thread asleep and unscheduled" : hi.spin_stall ? "spin-stall: every runnable thread burnt its CPU budget" : "hard limit") +
        "); class " + std::string(1, (char)cls) + " phase " + std::to_string(hc.phase.load()) + "; completed pushes " + std::to_string(pushed) + ", completed pops " + std::to_string(popped) +
        ", capacity " + std::to_string(cap) + ", threads inside a blocking pop " + std::to_string(bpop) + ", inside a blocking push " + std::to_string(bpush) +
        ", abort-free phase: delivered " + std::to_string(hc.delivered.load()) + " of " + std::to_string(hc.expect.load()) + " (highest " + std::to_string(hc.max_delivered.load()) + ")\nthreads: " + hi.threads + "\n" + rings_dump(10);
    if (kind.empty()) { R.inconclusive++; fprintf(stderr, "[c09] watchdog: inconclusive stall\n%s\n", d.c_str()); R.finish_and_exit(4); }
    // harness-side predicate: is what the blocked calls wait for available?
    long inside = pushed - popped;
    std::string what = kind;
    if (bpush > 0 && inside <= 0) what = "push-blocked-on-empty-queue";
    else if (bpop > 0 && inside > 0) {
        what = "pop-stuck-with-items";
        if (hc.expect.load() > 0 && hc.max_delivered.load() + 1 > hc.delivered.load()) what = "value-never-delivered";
    }
    else if (bpush > 0 && cap >= 0 && inside < cap) what = kind;       // blocked below capacity on a non-empty queue
    else if ((cls == 'Q' || cls == 'P') && hc.phase.load() == 2) what = "blocked-caller-not-released";   // abort() returned, a call that was blocked before it did not
    // Otherwise (blocked pops on an abstractly empty queue / pushes on a full one, or no blocking call at all): in classes
    // L S U G the coordinator helps such calls and every helping operation either makes progress or is itself reported
    // (and followed by abort()), so a stall here means that some operation never returns although nothing it can
    // legitimately wait for is missing: c09.<class>.hang.<kind>.
    if (cls == 'R' && what == "push-blocked-on-empty-queue") what = kind;
    if ((cls == 'P' || cls == 'R') && hc.phase.load() <= 1 && what == kind) {
        // still waiting for the callers to block before the first abort() in a class whose hang keys are known findings:
        // do not let a harness-side wait be filed under them (class Q is strict: a pop of an empty queue that never reaches its
        // wait is reported as c09.Q.hang.*)
        R.inconclusive++; fprintf(stderr, "[c09] stall while arming an abort scenario (harness)\n%s\n", d.c_str()); R.finish_and_exit(4);
    }
    R.violation(cls_key(cls, what), d, hc.scen());
    R.finish_and_exit(3);
}

// A crash (oneTBB assertion, SIGSEGV) is a verdict of the driver; print which scenario was running so that it can be replayed.
static void on_crash(int sig) {
    static char buf[1400];
    const std::string& sc = hang_ctx().scenario;          // best effort: no lock in a signal handler
    int n = snprintf(buf, sizeof buf, "\n[c09] signal %d in class %c phase %d scenario %.1200s\n", sig, (char)hang_ctx().cls.load(), hang_ctx().phase.load(), sc.c_str());
    if (n > 0) { ssize_t w = write(2, buf, (size_t)std::min<int>(n, (int)sizeof buf - 1)); (void)w; }
    signal(sig, SIG_DFL); raise(sig);
}

int main(int argc, char** argv) {
    signal(SIGABRT, on_crash); signal(SIGSEGV, on_crash); signal(SIGBUS, on_crash);
    Args a = standard_init(argc, argv, "c09");
    Result& R = result();
    long cases = a.num("cases", 2000);
    bool light = (R.variant == "tsan") || a.has("light");
    std::string mode = R.mode == "default" ? "mix" : R.mode;
    tbb::global_control gc(tbb::global_control::max_allowed_parallelism, 16);
    bool wedgeable = a.num("wedgeable", 1) != 0;   // class P: 0 = only scenarios with fewer blocked pushers than capacity (cannot reach the known wedge)
    Rng top(mix(R.seed, 0xC09));
    // never destroyed: the pool threads (and the per-thread hook records they own) stay alive until the process exits,
    // so LeakSanitizer sees them as reachable
    static Engine* engine = new Engine; Engine& E = *engine; E.light = light;
    // The verification hooks compiled into libtbb must be live (the sleep registry and the abort scenarios depend on them). If a
    // libtbb without hooks was loaded (e.g. the system library because the build directory vanished) nothing can be judged.
    {
        tbb::concurrent_bounded_queue<long> q0; q0.set_capacity(1); q0.push(1);
        E.pool.start(1, [&](int) { q0.push(2); });
        double t_end = now_s() + 5.0;
        while (hook_count(56) == 0 && now_s() < t_end) sched_yield();
        bool live = hook_count(56) > 0 && hook_count(50) > 0;
        long v; q0.pop(v); E.pool.wait();
        if (!live) { fprintf(stderr, "[c09] the loaded libtbb has no verification hooks (wrong library?)\n"); R.stat("no_hooks_in_libtbb"); R.write(); return 2; }
    }
    WatchdogCfg wc;
    watchdog_start(wc, on_hang);
    install_observer();
    LinStats ls;
    for (long k = 0; k < cases; k++) {
        char cls;
        if (mode == "mix") { static const char rot[] = "LLLLLLUGLLLSLLLQLLUGLLLLLUGLLLQLLLLLLLUG"; cls = rot[k % (sizeof rot - 1)]; }
        else cls = mode[0];
        Rng r(mix(top.next(), (uint64_t)k));
        switch (cls) {
        case 'L': case 'U': case 'G': { Plan p = gen_plan(r, cls, k / 3 + (long)(R.seed % 7)); run_case(E, p, r, ls); break; }
        case 'S': run_stress(E, r); break;
        case 'C': run_credit(E, r); break;
        case 'Q': case 'R': case 'P': run_abort(E, r, cls, wedgeable); break;
        case 'B': run_fault_B(E, r, k); break;
        default: fprintf(stderr, "unknown mode %s\n", mode.c_str()); return 2;
        }
        progress();
    }
    watchdog_stop();
    R.stat("lin_histories_checked", ls.checked); R.stat("lin_histories_overlapping", ls.overlapping);
    R.stat("hook_delays", (long long)perturb().delays.load());
    R.write();
    return 0;
}
