// C15 harness: limiter_node, overwrite_node / write_once_node, broadcast_node, split_node / indexer_node, item_buffer ring through the node API
#pragma once
#include "c15_joins.h"

// ---------------------------------------------------------------------------------------------- limiter_node
// topo 0: queue_node -> limiter -> sink (every message must arrive); topo 1: external threads put straight into the limiter (a put that
// returns false is dropped, one that returns true must arrive). decrement kinds: 0 the (queueing serial) sink body decrements itself,
// 1 a lightweight sink decrements inside its body - i.e. inside the limiter's own try_put_task, before the limiter has counted the message,
// 2 edge sink -> decrementer, 3 external thread(s) decrement for every message that entered the sink, 4 rejecting serial sink + edge.
// Invariant checked at every sink entry: entries - decrements_started <= threshold (a lower bound of forwarded - decremented).
static void run_limiter(Scn& s, tbb::task_arena& A) {
    Rng r(s.seed);
    GraphBox gb(A); fl::graph& g = gb.g();
    int topo = (int)r.pick(std::vector<int>{ 0, 0, 0, 1, 1, 2, 2, 3 }), dk = (int)r.below(5), T = (int)r.pick(std::vector<int>{ 1, 1, 2, 3, 8 });
    int np = 1 + (int)r.below(4); if (topo >= 2 && np < 2) np = 2;
    fl::queue_node<int> q(g), q2(g);
    fl::limiter_node<int> lim(g, (size_t)T);
    Producers ps(s, g, r, np, 1, r.chance(1, 5) ? 5 : 80, topo != 1);
    // topo 2: two queues feed the limiter; topo 3: producer 0 puts straight into the limiter, the others into the queue
    ps.put = [&](int p, int i) { int v = mkid(p, i); switch (topo) { case 0: return q.try_put(v); case 1: return lim.try_put(v); case 2: return (p & 1) ? q2.try_put(v) : q.try_put(v); default: return p == 0 ? lim.try_put(v) : q.try_put(v); } };
    LogSink<int> sink(s, g, dk == 1 ? SK_LIGHT : dk == 4 ? SK_REJECT : SK_ACCEPT, r, ps.total());
    std::atomic<long> entries{0}, decs_started{0}, decs_done{0}, tokens{0}, worst{0}, at_thr{0};
    bool dec_first = r.chance(1, 2);
    const std::string K = "c15.limiter";
    sink.pre = [&](const int&) {
        long e = entries.fetch_add(1, RLX) + 1, d = decs_started.load(RLX);
        if (e - d > T) { atomic_max(worst, e - d); s.fail(K + ".threshold-exceeded", "sink entry " + std::to_string(e) + " while only " + std::to_string(d) + " decrements had been started: at least " + std::to_string(e - d) + " un-decremented forwarded messages, threshold " + std::to_string(T)); }
        if (e - d == T) at_thr.fetch_add(1, RLX);
        if (dk == 0 || dk == 1) { if (dec_first || dk == 1) { decs_started.fetch_add(1, RLX); lim.decrementer().try_put(fl::continue_msg()); decs_done.fetch_add(1, RLX); } }
        else if (dk == 3) tokens.fetch_add(1, RLX);
    };
    // kinds 0 (decrement at the end of the body) and 2/4 (edge): the decrement starts after the body, which only makes the bound weaker
    struct Tail { std::function<void()> f; };
    std::unique_ptr<fl::function_node<fl::continue_msg, fl::continue_msg>> tail;
    if (dk == 0 && !dec_first) {   // decrement from a separate unlimited node fed by the sink
        tail.reset(new fl::function_node<fl::continue_msg, fl::continue_msg>(g, fl::unlimited, [&](const fl::continue_msg&) { decs_started.fetch_add(1, RLX); lim.decrementer().try_put(fl::continue_msg()); decs_done.fetch_add(1, RLX); return fl::continue_msg(); }));
        fl::make_edge(*sink.out, *tail);
    }
    if (dk == 2 || dk == 4) {
        tail.reset(new fl::function_node<fl::continue_msg, fl::continue_msg>(g, fl::unlimited, [&](const fl::continue_msg&) { decs_started.fetch_add(1, RLX); return fl::continue_msg(); }));
        fl::make_edge(*sink.out, *tail); fl::make_edge(*tail, lim.decrementer());
    }
    if (topo != 1) fl::make_edge(q, lim);
    if (topo == 2) fl::make_edge(q2, lim);
    fl::make_edge(lim, *sink.in);
    int ndec = dk == 3 ? 1 + (int)r.below(2) : 0;
    s.params = "limiter_node threshold=" + std::to_string(T) + " topology=" + std::vector<std::string>{ "queue->limiter", "direct-puts", "two-queues->limiter", "queue+direct-puts" }[topo] + " decrement_kind=" + std::to_string(dk) + (dec_first ? "(first)" : "") + " producers=" + std::to_string(np) + " items=" + std::to_string(ps.total());
    std::atomic<bool> stop{false}; std::atomic<long> taken{0}; std::atomic<int> prod_finished{0};
    uint64_t js = r.next();
    g_phase.store("limiter: producers running");
    crew().start(np + ndec, [&](int idx) {
        if (idx < np) { ps.run_producer(idx, mix(js, idx)); prod_finished.fetch_add(1, std::memory_order_release); return; }
        Rng rr(mix(js, 60 + idx));
        while (!stop.load(RLX)) {
            long t = taken.load(RLX);
            if (t < tokens.load(RLX) && taken.compare_exchange_strong(t, t + 1)) { pace(rr, 2); decs_started.fetch_add(1, RLX); lim.decrementer().try_put(fl::continue_msg()); decs_done.fetch_add(1, RLX); s.touch(); progress(); }
            else sched_yield();
        }
    });
    // wait until the producers are through, then drain
    {
        int spins = 0; while (prod_finished.load(std::memory_order_acquire) < np) { if (++spins > 20) sched_yield(); }
        g_phase.store("limiter: draining (wait_for_all until everything accepted was delivered)");
        int idle_rounds = 0;
        for (;;) {
            // An external decrement counts for the verdict only if its try_put had RETURNED before this wait_for_all began: only then the
            // forwarding task it made is one the wait has to cover. (Reading the counters after the wait is not enough: on a loaded machine
            // the decrement lands between the graph's idle instant and the reads, and its forwarding task has not run yet - false "stuck".)
            long dd_before = dk == 3 ? decs_done.load() : 0, del_before = entries.load();
            g.wait_for_all();
            long want = 0; for (int p = 0; p < np; p++) for (int i = 0; i < ps.n[p]; i++) want += ps.puts[p][i].ok ? 1 : 0;
            long del = entries.load(), dd = dk == 3 ? decs_done.load() : del;
            if (del >= want && dd >= del) break;
            if (dk == 3 && (dd_before < del_before || del != del_before)) { sched_yield(); idle_rounds = 0; continue; }     // a decrement was still on its way when the wait began, or a message arrived during it
            if (topo == 1) break;                                                       // direct puts: anything missing is reported as lost below
            // graph idle, every decrement for the delivered messages has been applied, yet messages are still waiting in the queue
            if (++idle_rounds >= 3) { s.fail(K + ".stuck", "graph idle after wait_for_all: " + std::to_string(del) + " of " + std::to_string(want) + " messages delivered, " + std::to_string(dd) + " decrements applied, threshold " + std::to_string(T) + ": the limiter does not forward the rest"); break; }
        }
    }
    stop.store(true); crew().join();
    g.wait_for_all(); ps.after_wait();
    std::vector<int> rest; { int v; while (q.try_get(v)) rest.push_back(v); while (q2.try_get(v)) rest.push_back(v); }
    std::vector<int> all = sink.log; all.insert(all.end(), rest.begin(), rest.end());
    check_fifo(s, K, ps, all, false, false, "limiter_node (threshold " + std::to_string(T) + ")");
    if (!rest.empty() && !s.fails) s.fail(K + ".stuck", std::to_string(rest.size()) + " messages are still in the queue in front of the limiter");
    long rej = 0, qrej = 0; for (int p = 0; p < np; p++) for (int i = 0; i < ps.n[p]; i++) if (!ps.puts[p][i].ok) { rej++; if (topo == 0 || topo == 2 || (topo == 3 && p != 0)) qrej++; }
    if (qrej) s.fail(K + ".put-rejected", "the queue_node in front of the limiter rejected a put");
    ST.lim_delivered += (long long)sink.log.size(); ST.lim_rejected_puts += rej; ST.lim_at_threshold += at_thr.load();
    if (dk == 1 || (dk == 0 && dec_first)) ST.lim_inline_decs += decs_done.load(); if (dk == 3) ST.lim_ext_decs += decs_done.load();
    s.sig = seq_sig(mix(mix(0x11, T), dk * 2 + topo), sink.log); s.sig = mix(s.sig, (uint64_t)rej);
    if (s.witness.load() == 0 && at_thr.load() > 0 && np > 1) s.witness.store(1);
    if (!s.fails && at_thr.load() > 3 && (rej > 0 || topo != 1) && np > 1) { Json j; j.obj(); j.kv("class", "limiter"); j.kv("params", s.params); j.kv("delivered", (long long)sink.log.size()); j.kv("puts_rejected_at_threshold", (long long)rej); j.kv("sink_entries_at_full_threshold", (long long)at_thr.load()); j.kv("decrements", (long long)decs_done.load()); j.end_obj(); s.sample = j.s; }
}

// ---------------------------------------------------------------------------------------------- limiter_node<T, int>: batch decrements
// The decrementer takes an integral delta. The sink acknowledges the messages that entered it in batches of 1..threshold: from inside its own
// body (a lightweight sink runs inside the limiter's try_put, i.e. the batch includes the message still being put: "future decrement"
// bookkeeping), from the body of a queueing sink, or from an external thread. Every delta acknowledges only messages that really entered
// the sink, so entries - (sum of deltas whose try_put has started) is a lower bound of forwarded - decremented: above the threshold is a violation.
static void run_limiter_batch(Scn& s, tbb::task_arena& A) {
    Rng r(s.seed);
    GraphBox gb(A); fl::graph& g = gb.g();
    int T = (int)r.pick(std::vector<int>{ 2, 2, 3, 4, 8 }), topo = (int)r.pick(std::vector<int>{ 0, 0, 1, 3, 3 }), ack_mode = (int)r.below(3);
    int np = 1 + (int)r.below(3); if (topo == 3 && np < 2) np = 2;
    int batch = 1 + (int)r.below((uint64_t)T);
    fl::queue_node<int> q(g);
    fl::limiter_node<int, int> lim(g, (size_t)T);
    Producers ps(s, g, r, np, 1, r.chance(1, 5) ? 5 : 80, topo != 1);
    ps.put = [&](int p, int i) { int v = mkid(p, i); switch (topo) { case 0: return q.try_put(v); case 1: return lim.try_put(v); default: return p == 0 ? lim.try_put(v) : q.try_put(v); } };
    LogSink<int> sink(s, g, ack_mode == 0 ? SK_LIGHT : SK_ACCEPT, r, ps.total());
    std::atomic<long> entries{0}, ack_started{0}, ack_done{0}, unacked{0}, tokens{0}, at_thr{0}, batches{0}, multi{0};
    const std::string K = "c15.limiter_batch";
    auto ack = [&](long k) { if (k <= 0) return; ack_started.fetch_add(k, RLX); lim.decrementer().try_put((int)k); ack_done.fetch_add(k, RLX); batches.fetch_add(1, RLX); if (k >= 2) multi.fetch_add(1, RLX); };
    sink.pre = [&](const int&) {
        long e = entries.fetch_add(1, RLX) + 1, d = ack_started.load(RLX);
        if (e - d > T) s.fail(K + ".threshold-exceeded", "sink entry " + std::to_string(e) + " while decrements for only " + std::to_string(d) + " messages had been started: at least " + std::to_string(e - d) + " un-decremented forwarded messages, threshold " + std::to_string(T));
        if (e - d == T) at_thr.fetch_add(1, RLX);
        if (ack_mode == 2) { tokens.fetch_add(1, RLX); return; }
        if (unacked.fetch_add(1, RLX) + 1 >= batch) ack(unacked.exchange(0, RLX));      // the sink is serial: nobody else touches unacked meanwhile
    };
    if (topo != 1) fl::make_edge(q, lim);
    fl::make_edge(lim, *sink.in);
    s.params = "limiter_node<int,int> threshold=" + std::to_string(T) + " topology=" + std::vector<std::string>{ "queue->limiter", "direct-puts", "", "queue+direct-puts" }[topo] + " acknowledged_by=" + std::vector<std::string>{ "lightweight sink body (inside the limiter's put)", "queueing sink body", "external thread" }[ack_mode] + " batch=" + std::to_string(batch) + " producers=" + std::to_string(np) + " items=" + std::to_string(ps.total());
    std::atomic<bool> stop{false}; std::atomic<long> taken{0}; std::atomic<int> prod_finished{0};
    uint64_t js = r.next();
    g_phase.store("limiter_batch: producers running");
    crew().start(np + (ack_mode == 2 ? 1 : 0), [&](int idx) {
        if (idx < np) { ps.run_producer(idx, mix(js, idx)); prod_finished.fetch_add(1, std::memory_order_release); return; }
        Rng rr(mix(js, 60 + idx)); int idle = 0;
        while (!stop.load(RLX)) {
            long avail = tokens.load(RLX) - taken.load(RLX);
            if (avail >= batch || (avail > 0 && ++idle > 40)) { long k = std::min<long>(avail, T); taken.fetch_add(k, RLX); pace(rr, 2); ack(k); idle = 0; s.touch(); progress(); }
            else sched_yield();
        }
    });
    {
        int spins = 0; while (prod_finished.load(std::memory_order_acquire) < np) { if (++spins > 20) sched_yield(); }
        g_phase.store("limiter_batch: draining");
        int idle_rounds = 0;
        for (;;) {
            long ack_before = ack_done.load(), del_before = entries.load();      // see run_limiter: an external acknowledgement counts only if it had returned before the wait began
            g.wait_for_all();
            long want = 0; for (int p = 0; p < np; p++) for (int i = 0; i < ps.n[p]; i++) want += ps.puts[p][i].ok ? 1 : 0;
            long del = entries.load();
            if (ack_mode != 2) { long k = unacked.exchange(0, RLX); if (k > 0) { ack(k); idle_rounds = 0; continue; } }     // acknowledge the incomplete last batch (the graph is idle: nothing runs in the sink)
            else if (del < want && (ack_before < del_before || del != del_before)) { sched_yield(); idle_rounds = 0; continue; }
            else if (ack_done.load() < del) { sched_yield(); idle_rounds = 0; continue; }
            if (del >= want) break;
            if (topo == 1) break;
            if (++idle_rounds >= 3) { s.fail(K + ".stuck", "graph idle after wait_for_all: " + std::to_string(del) + " of " + std::to_string(want) + " messages delivered, all of them acknowledged, threshold " + std::to_string(T) + ": the limiter does not forward the rest"); break; }
        }
    }
    stop.store(true); crew().join();
    g.wait_for_all(); ps.after_wait();
    std::vector<int> rest; { int v; while (q.try_get(v)) rest.push_back(v); }
    std::vector<int> all = sink.log; all.insert(all.end(), rest.begin(), rest.end());
    check_fifo(s, K, ps, all, false, false, "limiter_node<int,int> (threshold " + std::to_string(T) + ")");
    if (!rest.empty() && !s.fails) s.fail(K + ".stuck", std::to_string(rest.size()) + " messages are still in the queue in front of the limiter");
    long rej = 0; for (int p = 0; p < np; p++) for (int i = 0; i < ps.n[p]; i++) if (!ps.puts[p][i].ok) rej++;
    ST.limb_delivered += (long long)sink.log.size(); ST.limb_batches += batches.load(); ST.limb_multi_batches += multi.load(); ST.limb_at_threshold += at_thr.load();
    if (ack_mode == 0) ST.limb_inline_batches += batches.load();
    s.sig = seq_sig(mix(mix(0x12, T), ack_mode * 4 + topo), sink.log); s.sig = mix(s.sig, (uint64_t)rej * 16 + (uint64_t)batch);
    if (s.witness.load() == 0 && multi.load() > 0 && np > 1) s.witness.store(1);
}

// ---------------------------------------------------------------------------------------------- overwrite_node / write_once_node
template <class Node> static void run_single_value(Scn& s, tbb::task_arena& A, bool once) {
    Rng r(s.seed);
    GraphBox gb(A); fl::graph& g = gb.g();
    Node node(g);
    int np = 1 + (int)r.below(4), npresent = 1 + (int)r.below(2), nlate = (int)r.below(3);
    Producers ps(s, g, r, np, 1, r.chance(1, 4) ? 3 : 50, true);
    ps.put = [&](int p, int i) { return node.try_put(mkid(p, i)); };
    std::vector<std::unique_ptr<LogSink<int>>> sinks;
    for (int i = 0; i < npresent + nlate; i++) sinks.emplace_back(new LogSink<int>(s, g, SK_ACCEPT, r, ps.total()));
    for (int i = 0; i < npresent; i++) fl::make_edge(node, *sinks[i]->in);
    const std::string K = once ? "c15.write-once" : "c15.overwrite";
    s.params = std::string(once ? "write_once_node" : "overwrite_node") + " producers=" + std::to_string(np) + " puts=" + std::to_string(ps.total()) + " present_successors=" + std::to_string(npresent) + " late_successors=" + std::to_string(nlate);
    uint64_t js = r.next();
    g_phase.store("overwrite: producers running");
    crew().start(np, [&](int idx) { ps.run_producer(idx, mix(js, idx)); });
    for (int i = 0; i < nlate; i++) {
        // attach after at least one put has returned
        int spins = 0; while (ps.completed.load(RLX) == 0) { if (++spins > 20) sched_yield(); }
        pace(r, 2 + (int)r.below(2));
        fl::make_edge(node, *sinks[npresent + i]->in);
    }
    crew().join();
    g_phase.store("overwrite: wait_for_all");
    g.wait_for_all(); ps.after_wait();
    int V = -1; bool have = node.try_get(V);
    if (!have) { s.fail(K + ".try-get", "try_get fails after " + std::to_string(ps.total()) + " puts"); return; }
    auto name = [](int v) { return std::to_string(v >> kIdBits) + ":" + std::to_string(v & kIdMask); };
    if (!once) {
        bool is_last = false; for (int p = 0; p < np; p++) if (ps.ordered(p) && V == mkid(p, ps.n[p] - 1)) is_last = true;
        bool any_task = false; for (int p = 0; p < np; p++) any_task |= !ps.ordered(p);
        if (!is_last && !any_task) s.fail(K + ".final-value", "after all puts the node holds " + name(V) + ", which is not the last put of any producer");
        if (!g_light) { uint64_t vr = ps.puts[V >> kIdBits][V & kIdMask].ret; for (int p = 0; p < np; p++) for (int i = 0; i < ps.n[p]; i++) if (ps.puts[p][i].call > vr) { s.fail(K + ".final-value", "the node holds " + name(V) + " although put " + name(mkid(p, i)) + " was called after that put had returned"); p = np; break; } }
        const std::vector<int>& full = sinks[0]->log;
        for (int k = 0; k < npresent + nlate; k++) {
            const std::vector<int>& lg = sinks[k]->log; std::string who = (k < npresent ? "present successor " : "late successor ") + std::to_string(k);
            check_fifo(s, K, ps, lg, k >= npresent ? 2 : 0, false, who);
            if (lg.empty()) { s.fail(k < npresent ? K + ".successor-last-value" : K + ".late-successor", who + " received nothing"); continue; }
            if (lg.back() != V) s.fail(k < npresent ? K + ".successor-last-value" : K + ".late-successor", who + " last received " + name(lg.back()) + ", the node holds " + name(V));
            if (k < npresent && (int)lg.size() != ps.total()) s.fail(K + ".successor-missed-value", who + " received " + std::to_string(lg.size()) + " of " + std::to_string(ps.total()) + " values");
            if (k > 0 && lg.size() <= full.size() && !std::equal(lg.begin(), lg.end(), full.end() - lg.size())) s.fail(k < npresent ? K + ".successor-order" : K + ".late-successor", who + " did not receive a suffix of what successor 0 received: " + join_ints(lg, lg.size() > 8 ? lg.size() - 8 : 0) + " vs " + join_ints(full, full.size() > 8 ? full.size() - 8 : 0));
        }
        ST.ow_values += ps.total(); ST.ow_late += nlate;
        s.sig = seq_sig(mix(0x0E, nlate), full); for (int k = npresent; k < npresent + nlate; k++) s.sig = mix(s.sig, sinks[k]->log.size());
        if (s.witness.load() == 0 && switches(full) >= 2) s.witness.store(1);
    } else {
        int okc = 0, W = -1; for (int p = 0; p < np; p++) for (int i = 0; i < ps.n[p]; i++) if (ps.puts[p][i].ok) { okc++; W = mkid(p, i); }
        if (okc != 1) s.fail(K + ".accepted-count", std::to_string(okc) + " puts returned true (exactly the first one must)");
        else {
            if (V != W) s.fail(K + ".try-get", "the node holds " + name(V) + " but the accepted put was " + name(W));
            if (ps.ordered(W >> kIdBits) && (W & kIdMask) != 0) s.fail(K + ".not-first", "the accepted value " + name(W) + " is not the first put of its producer");
            if (!g_light) { uint64_t wc = ps.puts[W >> kIdBits][W & kIdMask].call; for (int p = 0; p < np; p++) for (int i = 0; i < ps.n[p]; i++) if (ps.puts[p][i].ret < wc) { s.fail(K + ".not-first", "the accepted put " + name(W) + " was called after put " + name(mkid(p, i)) + " had already returned"); p = np; break; } }
        }
        for (int k = 0; k < npresent + nlate; k++) { const std::vector<int>& lg = sinks[k]->log; if (lg.size() != 1 || lg[0] != V) s.fail(k < npresent ? K + ".successor-last-value" : K + ".late-successor", std::string(k < npresent ? "present" : "late") + " successor " + std::to_string(k) + " received " + std::to_string(lg.size()) + " values (" + join_ints(lg, 0, 6) + "), expected exactly " + name(V)); }
        ST.wo_rejected += ps.total() - okc; ST.ow_late += nlate;
        s.sig = mix(mix(0x01CE, W), nlate);
        if (s.witness.load() == 0 && np > 1) { int firsts = 0; for (int p = 0; p < np; p++) if (!g_light && ps.puts[p][0].call < ps.puts[W >> kIdBits][W & kIdMask].ret) firsts++; if (firsts >= 2) s.witness.store(1); }
    }
}

// ---------------------------------------------------------------------------------------------- broadcast_node
static void run_broadcast(Scn& s, tbb::task_arena& A) {
    Rng r(s.seed);
    GraphBox gb(A); fl::graph& g = gb.g();
    fl::broadcast_node<int> bc(g);
    int np = 1 + (int)r.below(4), ns = 1 + (int)r.below(4);
    Producers ps(s, g, r, np, 1, r.chance(1, 4) ? 4 : 60, true);
    ps.put = [&](int p, int i) { return bc.try_put(mkid(p, i)); };
    std::vector<int> off(np + 1, 0); for (int p = 0; p < np; p++) off[p + 1] = off[p] + ps.n[p];
    struct Succ { int kind; std::unique_ptr<LogSink<int>> sink; std::unique_ptr<fl::queue_node<int>> qn; std::unique_ptr<fl::function_node<int, fl::continue_msg>> fn; std::unique_ptr<std::atomic<int>[]> cnt; };
    std::vector<Succ> sc(ns);
    for (int k = 0; k < ns; k++) {
        sc[k].kind = (int)r.below(3);
        if (sc[k].kind == 0) { sc[k].sink.reset(new LogSink<int>(s, g, SK_ACCEPT, r, ps.total())); fl::make_edge(bc, *sc[k].sink->in); }
        else if (sc[k].kind == 1) { sc[k].qn.reset(new fl::queue_node<int>(g)); fl::make_edge(bc, *sc[k].qn); }
        else { sc[k].cnt.reset(new std::atomic<int>[ps.total()]); for (int i = 0; i < ps.total(); i++) sc[k].cnt[i].store(0, RLX); std::atomic<int>* c = sc[k].cnt.get(); Scn* sp = &s; int npp = np; const std::vector<int>* offp = &off; const Producers* pp = &ps;
            sc[k].fn.reset(new fl::function_node<int, fl::continue_msg>(g, fl::unlimited, [c, sp, npp, offp, pp](const int& v) { sp->consumer_event(); int p = v >> kIdBits, i = v & kIdMask; if (p < npp && i < pp->n[p]) c[(*offp)[p] + i].fetch_add(1, RLX); else sp->fail("c15.broadcast.phantom", "a successor received a value that was never put"); progress(); return fl::continue_msg(); }));
            fl::make_edge(bc, *sc[k].fn); }
    }
    const std::string K = "c15.broadcast";
    s.params = "broadcast_node producers=" + std::to_string(np) + " puts=" + std::to_string(ps.total()) + " successors=" + [&] { std::string t; for (auto& x : sc) t += std::to_string(x.kind); return t; }();
    uint64_t js = r.next();
    g_phase.store("broadcast: producers running");
    crew().run(np, [&](int idx) { ps.run_producer(idx, mix(js, idx)); });
    g_phase.store("broadcast: wait_for_all");
    g.wait_for_all(); ps.after_wait();
    for (int p = 0; p < np; p++) for (int i = 0; i < ps.n[p]; i++) if (!ps.puts[p][i].ok) s.fail(K + ".put-rejected", "broadcast_node::try_put returned false");
    s.sig = mix(0xBC, ns);
    for (int k = 0; k < ns; k++) {
        std::string who = "successor " + std::to_string(k) + " of " + std::to_string(ns) + " (kind " + std::to_string(sc[k].kind) + ")";
        if (sc[k].kind == 2) { for (int p = 0; p < np; p++) for (int i = 0; i < ps.n[p]; i++) { int c = sc[k].cnt[off[p] + i].load(); if (c != 1) { s.fail(c ? K + ".duplicate" : K + ".lost", who + " received message " + std::to_string(p) + ":" + std::to_string(i) + " " + std::to_string(c) + " times"); p = np; break; } } continue; }
        std::vector<int> lg; if (sc[k].kind == 0) lg = sc[k].sink->log; else { int v; while (sc[k].qn->try_get(v)) lg.push_back(v); }
        check_fifo(s, K, ps, lg, false, true, who);
        s.sig = seq_sig(s.sig, lg);
        if (s.witness.load() == 0 && switches(lg) >= 2) s.witness.store(1);
    }
    ST.bc_msgs += (long long)ps.total() * ns;
}

// ---------------------------------------------------------------------------------------------- split_node / indexer_node
// element / message value = id * 4 + port
static void run_split(Scn& s, tbb::task_arena& A) {
    Rng r(s.seed);
    GraphBox gb(A); fl::graph& g = gb.g();
    using Tup = std::tuple<int, long, int>;
    fl::split_node<Tup> sp(g);
    int np = 1 + (int)r.below(3);
    Producers ps(s, g, r, np, 1, r.chance(1, 4) ? 4 : 60, true);
    ps.put = [&](int p, int i) { int id = mkid(p, i); return sp.try_put(Tup(id * 4 + 0, (long)id * 4 + 1, id * 4 + 2)); };
    LogSink<int> s0(s, g, SK_ACCEPT, r, ps.total()), s2(s, g, SK_ACCEPT, r, ps.total()); LogSink<long> s1(s, g, SK_ACCEPT, r, ps.total());
    fl::make_edge(fl::output_port<0>(sp), *s0.in); fl::make_edge(fl::output_port<1>(sp), *s1.in); fl::make_edge(fl::output_port<2>(sp), *s2.in);
    const std::string K = "c15.split";
    s.params = "split_node<int,long,int> producers=" + std::to_string(np) + " tuples=" + std::to_string(ps.total());
    uint64_t js = r.next();
    g_phase.store("split: producers running");
    crew().run(np, [&](int idx) { ps.run_producer(idx, mix(js, idx)); });
    g.wait_for_all(); ps.after_wait();
    s.sig = 0x5B;
    auto chk = [&](int port, std::vector<long> lg) {
        std::vector<int> ids; for (long v : lg) { if ((v & 3) != port) s.fail(K + ".misrouted", "output port " + std::to_string(port) + " delivered element " + std::to_string(v & 3) + " of tuple " + std::to_string(v >> 2)); ids.push_back((int)(v >> 2)); }
        check_fifo(s, K, ps, ids, false, true, "split_node output port " + std::to_string(port)); s.sig = seq_sig(s.sig, ids);
        if (s.witness.load() == 0 && switches(ids) >= 2) s.witness.store(1);
    };
    chk(0, std::vector<long>(s0.log.begin(), s0.log.end())); chk(1, s1.log); chk(2, std::vector<long>(s2.log.begin(), s2.log.end()));
    ST.sp_msgs += ps.total();
}
static void run_indexer(Scn& s, tbb::task_arena& A) {
    Rng r(s.seed);
    GraphBox gb(A); fl::graph& g = gb.g();
    using IX = fl::indexer_node<int, long, int>; using Out = IX::output_type;
    IX ix(g);
    std::vector<std::unique_ptr<Producers>> ps; int threads = 0; std::vector<std::pair<int, int>> who;
    for (int k = 0; k < 3; k++) {
        ps.emplace_back(new Producers(s, g, r, 1 + (int)r.below(2), 0, r.chance(1, 4) ? 4 : 50, true)); Producers* pp = ps.back().get();
        if (k == 0) pp->put = [&ix](int p, int i) { return fl::input_port<0>(ix).try_put(mkid(p, i) * 4 + 0); };
        else if (k == 1) pp->put = [&ix](int p, int i) { return fl::input_port<1>(ix).try_put((long)mkid(p, i) * 4 + 1); };
        else pp->put = [&ix](int p, int i) { return fl::input_port<2>(ix).try_put(mkid(p, i) * 4 + 2); };
        for (int p = 0; p < pp->np; p++) { who.push_back({ k, p }); threads++; }
    }
    LogSink<Out> sink(s, g, r.chance(1, 4) ? SK_REJECT : SK_ACCEPT, r, 128);
    std::unique_ptr<fl::queue_node<Out>> qn; if (sink.kind == SK_REJECT) { qn.reset(new fl::queue_node<Out>(g)); fl::make_edge(ix, *qn); fl::make_edge(*qn, *sink.in); } else fl::make_edge(ix, *sink.in);
    const std::string K = "c15.indexer";
    s.params = "indexer_node<int,long,int> puts per port=" + [&] { std::string t; for (auto& p : ps) t += std::to_string(p->total()) + " "; return t; }();
    uint64_t js = r.next();
    g_phase.store("indexer: producers running");
    crew().run(threads, [&](int idx) { ps[who[idx].first]->run_producer(who[idx].second, mix(js, idx)); });
    g.wait_for_all(); for (auto& p : ps) p->after_wait();
    std::vector<std::vector<int>> ids(3); std::vector<int> tags;
    for (auto& m : sink.log) {
        size_t tag = m.tag(); long v = -1;
        if (tag == 1) { if (m.is_a<long>()) v = fl::cast_to<long>(m); } else if (tag == 0 || tag == 2) { if (m.is_a<int>()) v = fl::cast_to<int>(m); }
        if (tag > 2 || v < 0) { s.fail(K + ".wrong-tag", "message with tag " + std::to_string(tag) + " does not hold the type of that port"); continue; }
        if ((v & 3) != (long)tag) s.fail(K + ".wrong-tag", "message put to port " + std::to_string(v & 3) + " arrived tagged " + std::to_string(tag));
        ids[tag].push_back((int)(v >> 2)); tags.push_back((int)tag << kIdBits);
    }
    for (int k = 0; k < 3; k++) check_fifo(s, K, *ps[k], ids[k], false, true, "indexer_node port " + std::to_string(k));
    s.sig = seq_sig(0x1D, tags); for (int k = 0; k < 3; k++) s.sig = seq_sig(s.sig, ids[k]);
    if (s.witness.load() == 0 && switches(tags) >= 2) s.witness.store(1);
    ST.ix_msgs += (long long)sink.log.size();
}

// ---------------------------------------------------------------------------------------------- item_buffer ring through the node API
// kinds: 0 buffer_node, 1 queue_node, 2 priority_queue_node; no successors, driven with try_put / try_get / try_reserve / try_release /
// try_consume. sequential: one thread against an exact model (wrap the ring, reserve, grow while the reservation is outstanding);
// concurrent: 1-3 putting threads, a try_get thread and a reserving thread.
struct RingNode {
    int kind; std::unique_ptr<fl::graph_node> node; fl::buffer_node<int>* b;   // queue/priority derive from buffer_node: the virtual API is the same
    RingNode(fl::graph& g, int k) : kind(k) { if (k == 0) b = new fl::buffer_node<int>(g); else if (k == 1) b = new fl::queue_node<int>(g); else b = new fl::priority_queue_node<int>(g); node.reset(b); }
};
static const char* ring_kind[] = { "buffer", "queue", "priority" };
static void run_ring_seq(Scn& s, tbb::task_arena& A) {
    Rng r(s.seed);
    GraphBox gb(A); fl::graph& g = gb.g();
    int kind = (int)r.below(3); RingNode rn(g, kind); auto& n = *rn.b;
    const std::string K = std::string("c15.ring.") + ring_kind[kind];
    std::deque<int> model; bool reserved = false; int rv = -1; int next = 1; long ops = 0, wraps = 0, heads = 0;
    int nops = r.chance(1, 4) ? 20 + (int)r.below(40) : 60 + (int)r.below(400);
    std::string trace;
    auto note = [&](const std::string& t) { if (trace.size() < 900) trace += t + " "; };
    auto pick_expected = [&](bool front) -> int { if (kind == 2) return *std::max_element(model.begin(), model.end()); return front ? model.front() : -1; };
    auto erase_val = [&](int v) { auto it = std::find(model.begin(), model.end(), v); if (it == model.end()) return false; model.erase(it); return true; };
    s.touch();
    for (int step = 0; step < nops && !s.fails; step++) {
        // phases: fill/drain cycles move the head around the ring; with a reservation outstanding mostly puts (forces grow + wrap)
        unsigned w = (unsigned)r.below(100); int op;
        if (reserved) op = w < 62 ? 0 : w < 74 ? 1 : w < 88 ? 3 : 4; else op = w < 40 ? 0 : w < 72 ? 1 : 2;
        if (op == 1 && kind == 0 && reserved && model.empty() && !g_allow_bufget) op = 0;
        ops++;
        if (op == 0) { int v = (kind == 2 ? (int)r.below(64) << 16 : 0) | next++; bool ok = n.try_put(v); note("p" + std::to_string(v & 0xffff)); if (!ok) s.fail(K + ".put-rejected", "try_put returned false"); model.push_back(v); }
        else if (op == 1) {
            int v = -1; bool ok = n.try_get(v); size_t free_items = model.size();    // the reserved item is not in `model`
            note(std::string("g") + (ok ? std::to_string(v & 0xffff) : "-"));
            bool expect_ok = kind == 0 ? free_items > 0 : (!reserved && free_items > 0);
            if (ok && reserved && v == rv) { s.fail(K + ".reserved-item-taken-by-try-get", "try_get returned item " + std::to_string(v & 0xffff) + " which is currently reserved (reservation outstanding, " + std::to_string(free_items) + " other items buffered); ops: " + trace); break; }
            if (ok != expect_ok) { s.fail(K + ".model-mismatch", std::string("try_get returned ") + (ok ? "true" : "false") + " with " + std::to_string(free_items) + " unreserved items buffered" + (reserved ? " and a reservation outstanding" : "") + "; ops: " + trace); break; }
            if (ok) { if (kind != 0 && v != pick_expected(true)) { s.fail(K + ".model-mismatch", "try_get returned " + std::to_string(v & 0xffff) + ", expected " + std::to_string(pick_expected(true) & 0xffff) + "; ops: " + trace); break; } if (!erase_val(v)) { s.fail(K + ".phantom", "try_get returned " + std::to_string(v) + " which is not buffered; ops: " + trace); break; } heads++; }
            else if (reserved) ST.ring_get_while_reserved_refused++;
        } else if (op == 2) {
            int v = -1; bool ok = n.try_reserve(v); note(std::string("r") + (ok ? std::to_string(v & 0xffff) : "-"));
            if (ok != !model.empty()) { s.fail(K + ".model-mismatch", std::string("try_reserve returned ") + (ok ? "true" : "false") + " with " + std::to_string(model.size()) + " items buffered; ops: " + trace); break; }
            if (ok) { if (kind != 0 && v != pick_expected(true)) { s.fail(K + ".model-mismatch", "try_reserve returned " + std::to_string(v & 0xffff) + ", expected " + std::to_string(pick_expected(true) & 0xffff) + "; ops: " + trace); break; } if (!erase_val(v)) { s.fail(K + ".phantom", "try_reserve returned a value that is not buffered; ops: " + trace); break; } reserved = true; rv = v; g_resv_outstanding.store(true, RLX); }
        } else if (op == 3) { n.try_release(); note("R"); reserved = false; g_resv_outstanding.store(false, RLX); if (kind == 1) model.push_front(rv); else model.push_back(rv); }
        else { n.try_consume(); note("C"); reserved = false; g_resv_outstanding.store(false, RLX); heads++; }
        if (heads >= 4) { wraps++; heads = 0; }
    }
    if (reserved && !s.fails) { n.try_release(); g_resv_outstanding.store(false, RLX); if (kind == 1) model.push_front(rv); else model.push_back(rv); }
    g_resv_outstanding.store(false, RLX);
    if (!s.fails) {
        std::vector<int> out; { int v; while (n.try_get(v)) out.push_back(v); }
        std::vector<int> exp(model.begin(), model.end());
        if (kind == 2) std::sort(exp.rbegin(), exp.rend());
        if (kind == 0) { std::sort(exp.begin(), exp.end()); std::vector<int> o2 = out; std::sort(o2.begin(), o2.end()); if (o2 != exp) s.fail(K + ".model-mismatch", "final drain returned " + std::to_string(out.size()) + " items, the model holds " + std::to_string(exp.size()) + "; ops: " + trace); }
        else if (out != exp) s.fail(K + ".model-mismatch", "final drain: got " + [&] { std::vector<int> a; for (int v : out) a.push_back(v & 0xffff); return join_ints(a, 0, 20); }() + "expected " + [&] { std::vector<int> a; for (int v : exp) a.push_back(v & 0xffff); return join_ints(a, 0, 20); }() + "; ops: " + trace);
    }
    g.wait_for_all();
    ST.ring_ops += ops; ST.ring_wraps += wraps;
    s.params = std::string("ring sequential ") + ring_kind[kind] + "_node ops=" + std::to_string(nops);
    s.sig = mix(mix(0x7177, kind), mix(s.seed, 1));
}
static void run_ring_conc(Scn& s, tbb::task_arena& A) {
    Rng r(s.seed);
    GraphBox gb(A); fl::graph& g = gb.g();
    int kind = (int)r.below(3); bool getter = r.chance(3, 4);
    if (s.cls == "ringbuf") { kind = 0; getter = true; }
    if (kind == 0 && !g_allow_bufget) getter = false;
    RingNode rn(g, kind); auto& n = *rn.b;
    const std::string K = std::string("c15.ring.") + ring_kind[kind];
    int np = 1 + (int)r.below(3);
    Producers ps(s, g, r, np, 1, r.chance(1, 4) ? 6 : 100, false);
    ps.put = [&](int p, int i) { return n.try_put(mkid(p, i)); };
    s.params = std::string("ring concurrent ") + ring_kind[kind] + "_node producers=" + std::to_string(np) + " items=" + std::to_string(ps.total()) + (getter ? " getter" : "") + " reserver";
    struct Iv { int v; uint64_t a, b; };
    std::vector<Iv> gets, holds; std::vector<int> got, consumed; long releases = 0;
    std::atomic<int> prod_done{0}; int rel_den = 2 + (int)r.below(3);
    uint64_t js = r.next();
    g_phase.store("ring: threads running");
    crew().run(np + 1 + (getter ? 1 : 0), [&](int idx) {
        if (idx < np) { ps.run_producer(idx, mix(js, idx)); prod_done.fetch_add(1); return; }
        Rng rr(mix(js, 40 + idx));
        if (idx == np) {      // reserver
            for (;;) {
                bool pd = prod_done.load() == np; int v = -1;
                if (n.try_reserve(v)) { uint64_t a = stamp(); g_resv_outstanding.store(true, RLX); s.consumer_event(); pace(rr, 2 + (int)rr.below(2)); bool rel = rr.below(rel_den) == 0; g_resv_outstanding.store(false, RLX); uint64_t b = stamp(); holds.push_back({ v, a, b }); if (rel) { n.try_release(); releases++; } else { n.try_consume(); consumed.push_back(v); } progress(); }
                else if (pd) break; else sched_yield();
            }
        } else {              // getter
            for (;;) { bool pd = prod_done.load() == np; int v = -1; uint64_t a = stamp(); if (n.try_get(v)) { uint64_t b = stamp(); gets.push_back({ v, a, b }); got.push_back(v); s.consumer_event(); progress(); } else if (pd) break; else sched_yield(); pace(rr, 1); }
        }
    });
    g.wait_for_all();
    std::vector<int> rest; { int v; while (n.try_get(v)) rest.push_back(v); }
    if (!g_light) for (auto& gt : gets) for (auto& h : holds) if (h.v == gt.v && gt.a > h.a && gt.b < h.b) { s.fail(K + ".reserved-item-taken-by-try-get", "try_get returned item " + std::to_string(gt.v >> kIdBits) + ":" + std::to_string(gt.v & kIdMask) + " while the reserving thread held it reserved (try_reserve had returned, try_release/try_consume not yet called)"); break; }
    std::vector<int> all = got; all.insert(all.end(), consumed.begin(), consumed.end()); all.insert(all.end(), rest.begin(), rest.end());
    check_fifo(s, K, ps, all, false, false, std::string(ring_kind[kind]) + "_node under put/get/reserve from " + std::to_string(np + 1 + (getter ? 1 : 0)) + " threads");
    if (kind == 1) { check_fifo(s, K, ps, got, 2, true, "queue_node: items taken by the try_get thread"); check_fifo(s, K, ps, consumed, 2, true, "queue_node: items consumed by the reserving thread"); }
    ST.ring_ops += (long long)ps.total() + (long long)gets.size() + (long long)holds.size(); ST.q_released += releases;
    s.sig = seq_sig(seq_sig(mix(0x7178, kind), got), consumed);
}
