// C11: concurrent_vector growth hands out disjoint ranges and never moves elements.
//
// Modes (--mode): mix (default: G E S in rotation), G (fault-free concurrent growth), E (a constructor of a single-element append
// throws while others grow), S (single thread, constructor/allocation throws inside call k, nothing grows afterwards), Salloc (single
// thread: further growth after the failed call), M (2-4 growing threads, a constructor or allocation throws, then further growth),
// H (sizes >= 2^31 with a lazily committed allocator: --hn n1,n2,... --hthreads t --hold old_size).
// Salloc and M contain the known defect cv.abandoned-range-starves-segment-waiters (a growth call spins for a segment whose claimant
// gave up); they run in processes of their own and the wedge becomes a verdict through the watchdog (spin-stall / quiescence) plus the
// harness-side predicate "a growth call is in flight, nothing is being constructed or allocated, and an earlier call ended with an
// exception". The same stall without an earlier failed call, or in any other class, is reported under a strict key.
#define VRT_IMPL
#include "vrt.h"
#include "c11_common.h"
#include "c11_growth.h"
#include "c11_fault.h"
#include "c11_huge.h"
#include <oneapi/tbb/global_control.h>
#include <csignal>

using namespace vrt;
using namespace c11;

static void on_hang(const HangInfo& hi) {
    Result& R = result(); HangCtx& hc = hang_ctx();
    int cls = hc.cls.load(), inflight = hc.inflight.load(), exc = hc.exceptions.load();
    std::string kind = hi.quiescent ? "quiescent" : hi.spin_stall ? "spin-stall" : "";
    std::string calls;
    for (int t = 0; t <= Pool::kMax + 1; t++) { int k = hc.cur_kind[t].load(); if (k >= 0) calls += (t >= Pool::kMax ? std::string("coordinator") : "thread " + std::to_string(t)) + " inside " + kind_names[k] + " arg " + std::to_string(hc.cur_arg[t].load()) + "; "; }
    std::string d = "no progress for " + std::to_string((int)hi.stalled_for) + " s (" + (hi.quiescent ? "quiescent: every thread asleep and unscheduled" : hi.spin_stall ? "spin-stall: every runnable thread burnt its CPU budget, nothing was constructed or allocated meanwhile" : "hard limit") +
        "); class " + cls_name(cls) + " phase " + std::to_string(hc.phase.load()) + " (1 concurrent part, 2 growth after the failed call); growth calls in flight: " + std::to_string(inflight) + " [" + calls + "]; growth calls of this vector that ended with an exception before: " + std::to_string(exc) +
        "\nthreads: " + hi.threads + "\n" + rings_dump(8);
    if (kind.empty()) { R.inconclusive++; fprintf(stderr, "[c11] watchdog: inconclusive stall\n%s\n", d.c_str()); R.finish_and_exit(4); }
    // harness-side predicate: a growth call only ever waits for a segment / the long table that another growth call publishes;
    // with no call in flight the stall is the harness's own
    if (inflight <= 0) { R.inconclusive++; fprintf(stderr, "[c11] stall with no growth call in flight (harness)\n%s\n", d.c_str()); R.finish_and_exit(4); }
    std::string what = "hang." + kind;
    if ((cls == 'M' || cls == 'a') && exc == 0) what = "hang-without-failed-call." + kind;
    R.stat(std::string(cls_name(cls)) + "_wedged");
    R.violation(key_of(cls, what), d.substr(0, 1500), hc.scen());
    R.finish_and_exit(3);
}

static void on_crash(int sig) {
    static char buf[1400];
    const std::string& sc = hang_ctx().scenario;          // best effort: no lock in a signal handler
    int n = snprintf(buf, sizeof buf, "\n[c11] signal %d in class %s phase %d scenario %.1200s\n", sig, cls_name(hang_ctx().cls.load()), hang_ctx().phase.load(), sc.c_str());
    if (n > 0) { ssize_t w = write(2, buf, (size_t)std::min<int>(n, (int)sizeof buf - 1)); (void)w; }
    signal(sig, SIG_DFL); raise(sig);
}

static std::vector<uint64_t> parse_list(const std::string& s) {
    std::vector<uint64_t> v; size_t i = 0;
    while (i < s.size()) { size_t j = s.find(',', i); if (j == std::string::npos) j = s.size(); if (j > i) v.push_back(strtoull(s.substr(i, j - i).c_str(), nullptr, 0)); i = j + 1; }
    return v;
}

int main(int argc, char** argv) {
    signal(SIGABRT, on_crash); signal(SIGSEGV, on_crash); signal(SIGBUS, on_crash);
    Args a = standard_init(argc, argv, "c11");
    Result& R = result();
    long cases = a.num("cases", 2000);
    std::string mode = R.mode == "default" ? "mix" : R.mode;
    tbb::global_control gc(tbb::global_control::max_allowed_parallelism, 16);
    static Engine* engine = new Engine; Engine& E = *engine;      // never destroyed: the pool threads live until the process exits
    E.strict_gtal = a.num("strict-gtal", 1) != 0;
    E.emit_uninit = a.num("emit-uninit", 1) != 0;
    // the verification hooks compiled into the headers must be live (delays and window counters depend on them)
    { Vec v0; v0.push_back(Elem(1)); v0.grow_by(20);
      if (hook_count(150) == 0) { fprintf(stderr, "[c11] concurrent_vector was compiled without verification hooks\n"); R.stat("no_hooks"); R.write(); return 2; } }
    std::vector<uint64_t> hn = parse_list(a.str("hn", "0x80000000,0x80000005"));
    int hthreads = (int)a.num("hthreads", 1); uint64_t hold = (uint64_t)strtoull(a.str("hold", "0").c_str(), nullptr, 0);
    WatchdogCfg wc;
    // every growth call of the normal classes takes micro- to milliseconds and the huge class ticks progress from the element
    // constructor, so 5 s of CPU burnt by every runnable thread without a single completion is a stall; the waits of the known defect
    // yield between polls, so on a loaded machine the budget is reached slowly: leave plenty of room before giving up as inconclusive
    wc.spin_cpu_s = a.dbl("spin-cpu", 5.0); wc.hard_limit_s = a.dbl("hard-limit", 700.0);
    watchdog_start(wc, on_hang);
    Rng top(mix(R.seed, 0xC11));
    long n_s = R.seed % 97, n_e = R.seed % 89, n_m = R.seed % 83;
    if (mode == "H" && cases > (long)hn.size()) cases = (long)hn.size();      // the list of sizes is the volume of this class (VERIF_SCALE does not repeat it)
    for (long k = 0; k < cases; k++) {
        int cls;
        if (mode == "mix") { static const char rot[] = "GGEGGSGGGEGSGGGS"; cls = rot[k % (sizeof rot - 1)]; }
        else if (mode == "Salloc") cls = 'a';
        else cls = mode[0];
        Rng r(mix(top.next(), (uint64_t)k));
        switch (cls) {
        case 'G': { Plan p = gen_plan(r, 'G', k); run_growth(E, p, r); break; }
        case 'E': { Plan p = gen_plan(r, 'E', n_e++); run_growth(E, p, r); break; }
        case 'M': { Plan p = gen_plan(r, 'M', n_m++); run_growth(E, p, r); break; }
        case 'T': { Plan p = gen_table_plan(r); run_growth(E, p, r); break; }
        case 'F': { Plan p = gen_first_block_plan(r); run_growth(E, p, r); break; }
        case 'S': case 'a': run_single_fault(E, r, cls, n_s++); break;
        case 'H': run_huge(E, r, hn[(size_t)k % hn.size()], hthreads, hold); break;
        default: fprintf(stderr, "unknown mode %s\n", mode.c_str()); return 2;
        }
        progress();
    }
    watchdog_stop();
    R.stat("hook_delays", (long long)perturb().delays.load());
    R.finish_and_exit(0);
}
