// C03: an exception thrown by user code inside a parallel construct surfaces exactly once, at the call that waits,
// as one of the exceptions actually thrown, after every body of the group has stopped and none can start any more;
// nothing is swallowed, nothing escapes on a worker (that would end the process: the driver sees the abort), every
// object the library made for the cancelled work is destroyed exactly once, and the construct is reusable.
//
// Fault injection: every user-code site of a construct (body, Range copy/split constructors, Body splitting
// constructor, join/reduction/combine callbacks, feeder items, pipeline filters, comparator, flow-graph bodies) calls
// maybe_throw(site); a throw plan says at which invocation indices of which sites an exception with a fresh id fires.
#define VRT_IMPL
#include "vrt_tbb.h"
#include <oneapi/tbb.h>
#include <oneapi/tbb/flow_graph.h>
#include <memory>
#include <deque>

using namespace vrt;

enum Site { S_BODY = 0, S_RANGE_COPY, S_RANGE_SPLIT, S_BODY_SPLIT, S_JOIN, S_FEED, S_FILTER, S_CMP, S_COMBINE, S_FG, NSITES };
static const char* site_name[] = { "body", "range_copy", "range_split", "body_split", "join", "feeder_item", "filter", "comparator", "combine", "fg_body" };
// The exception type counts its live instances: every copy the library captures (one per cancelled group, by contract) must be destroyed
// once the waiting call has rethrown it and the handler is done; a capture that is overwritten and forgotten stays alive for ever.
static std::atomic<long> g_boom_live{0}, g_boom_made{0};
struct Boom {
    int id;
    explicit Boom(int i) : id(i) { g_boom_live.fetch_add(1, std::memory_order_relaxed); g_boom_made.fetch_add(1, std::memory_order_relaxed); }
    Boom(const Boom& o) : id(o.id) { g_boom_live.fetch_add(1, std::memory_order_relaxed); }
    ~Boom() { g_boom_live.fetch_sub(1, std::memory_order_relaxed); }
};

struct Call {                                 // state of one call under test (kept alive after the call: late bodies must find it)
    std::atomic<long> counter[NSITES];
    std::vector<long> fire[NSITES];           // invocation indices at which the site throws
    std::atomic<int> live{0}, bodies{0}, late{0}, thrown_n{0};
    std::atomic<bool> over{false};
    std::mutex m; std::vector<int> thrown;
    std::atomic<long> objs{0};                // library-made copies of user objects currently alive
    int prelude = 0;                          // what a plain body does around its throw point (see body_throw)
    Call() { for (auto& c : counter) c.store(0); }
};
static std::atomic<int> g_exc_id{1};
static thread_local Call* tl_call = nullptr;  // not used for attribution (bodies carry the pointer), only for Range/Body copies

static void maybe_throw(Call* c, int site) {
    long k = c->counter[site].fetch_add(1, std::memory_order_relaxed);
    for (long f : c->fire[site]) if (f == k) {
        int id = g_exc_id.fetch_add(1);
        { std::lock_guard<std::mutex> l(c->m); c->thrown.push_back(id); }
        c->thrown_n.fetch_add(1);
        throw Boom(id);
    }
}
// Throw point of a plain body. In half of the calls the body first re-enters the scheduler in a way that makes the library swap the
// executing task's context / isolation in place and restore it afterwards - task_arena::execute on the arena the task already runs
// in (directly or through attach), a small flow graph run to wait_for_all, isolate - or throws from inside such a nested execute.
// The exception must still be attributed to the task's own group.
static tbb::task_arena* g_main_arena = nullptr;
static const char* prelude_name[] = { "none", "execute(same arena) then throw", "attach.execute then throw", "graph.wait_for_all then throw", "isolate then throw", "throw inside execute(same arena)" };
static void body_throw(Call* c) {
    switch (c->prelude) {
    case 1: g_main_arena->execute([] { spin_iters(30); }); break;
    case 2: { tbb::task_arena here{ tbb::task_arena::attach{} }; here.execute([] { spin_iters(30); }); break; }
    case 3: { tbb::flow::graph g; std::atomic<int> n{0}; tbb::flow::function_node<int, int> f(g, tbb::flow::unlimited, [&n](int v) { n++; return v; }); f.try_put(1); f.try_put(2); g.wait_for_all(); break; }
    case 4: tbb::this_task_arena::isolate([] { spin_iters(30); }); break;
    case 5: g_main_arena->execute([c] { maybe_throw(c, S_BODY); }); return;
    default: break;
    }
    maybe_throw(c, S_BODY);
}
struct Live {                                 // RAII: a body of the call is running
    Call* c;
    explicit Live(Call* c_) : c(c_) { if (c->over.load(std::memory_order_acquire)) c->late.fetch_add(1); c->live.fetch_add(1); c->bodies.fetch_add(1, std::memory_order_relaxed); }
    ~Live() { c->live.fetch_sub(1); }
};
static void work(unsigned n) { spin_iters(n); }

// counted user objects
struct Counted { Call* c; explicit Counted(Call* c_) : c(c_) { c->objs.fetch_add(1); } Counted(const Counted& o) : c(o.c) { c->objs.fetch_add(1); } ~Counted() { c->objs.fetch_sub(1); } };

struct TRange {                               // Range whose copy / splitting constructors can throw
    int b, e, g; Call* c; Counted cnt;
    TRange(int b_, int e_, int g_, Call* c_) : b(b_), e(e_), g(g_), c(c_), cnt(c_) {}
    TRange(const TRange& o) : b(o.b), e(o.e), g(o.g), c(o.c), cnt(o.cnt) { maybe_throw(c, S_RANGE_COPY); }
    TRange(TRange& r, tbb::split) : b((r.b + r.e) / 2), e(r.e), g(r.g), c(r.c), cnt(r.cnt) { maybe_throw(c, S_RANGE_SPLIT); r.e = b; }
    bool empty() const { return b >= e; }
    bool is_divisible() const { return e - b > g; }
};
struct RBody {                                // imperative reduce body
    Call* c; long sum = 0; Counted cnt; unsigned w;
    RBody(Call* c_, unsigned w_) : c(c_), cnt(c_), w(w_) {}
    RBody(RBody& o, tbb::split) : c(o.c), cnt(o.cnt), w(o.w) { maybe_throw(c, S_BODY_SPLIT); }
    void operator()(const TRange& r) { Live l(c); maybe_throw(c, S_BODY); for (int i = r.b; i < r.e; ++i) sum += i; work(w); }
    void join(RBody& rhs) { maybe_throw(c, S_JOIN); sum += rhs.sum; }
};

struct Scen { std::string construct; int site = 0; int nthrows = 0; std::string params; };

static std::deque<std::unique_ptr<Call>> g_calls;    // recent calls stay alive so that a body starting after the return is noticed
static Call* new_call() { g_calls.emplace_back(new Call()); while (g_calls.size() > 400) g_calls.pop_front(); return g_calls.back().get(); }

static Scen g_cur; static std::mutex g_cur_m; static std::atomic<bool> g_in_call{false};

// run one call, classify the outcome
template <class F>
static bool attempt(Result& R, Call* c, const Scen& sc, F&& call, bool expect_status_only = false) {
    c->prelude = trng().chance(1, 2) ? 0 : 1 + (int)trng().below(5);
    { std::lock_guard<std::mutex> l(g_cur_m); g_cur = sc; }
    set_crash_context(sc.construct + "." + site_name[sc.site]);
    g_in_call = true;
    int caught = 0, foreign = 0; bool returned = false;
    try { call(); returned = true; }
    catch (Boom& b) { caught = b.id; }
    catch (tbb::user_abort&) { foreign = 1; }
    catch (...) { foreign = 2; }
    g_in_call = false;
    int live_now = c->live.load();
    c->over.store(true, std::memory_order_release);
    std::string key_base = "c03." + sc.construct + "." + site_name[sc.site] + ".";
    std::string ctx = "construct " + sc.construct + ", throwing site " + site_name[sc.site] + ", " + std::to_string(c->thrown_n.load()) + " exceptions thrown, params " + sc.params + ", plain bodies: " + prelude_name[c->prelude];
    bool ok = true;
    auto viol = [&](const char* k, const std::string& d) { ok = false; Json j; j.obj(); j.kv("construct", sc.construct); j.kv("site", site_name[sc.site]); j.kv("params", sc.params); j.end_obj(); R.violation(key_base + k, d + " [" + ctx + "]", j.s); };
    int nthrown = c->thrown_n.load();
    if (foreign) viol("foreign-exception", "the call threw an exception that user code never threw");
    if (caught) { bool found = false; { std::lock_guard<std::mutex> l(c->m); for (int t : c->thrown) if (t == caught) found = true; } if (!found) viol("unknown-exception-id", "the call threw exception id " + std::to_string(caught) + " which was not thrown by this call's work"); }
    if (returned && nthrown > 0 && !expect_status_only) viol("swallowed", "user code threw but the waiting call returned normally");
    if (!returned && !caught && !foreign) viol("no-outcome", "internal");
    if (caught && nthrown == 0) viol("exception-without-throw", "exception delivered although nothing was thrown");
    if (live_now != 0) viol("bodies-still-running", std::to_string(live_now) + " bodies of the group were still running when the call " + (returned ? "returned" : "threw"));
    // every exception object of this call must be gone as well: the handler above has ended, the group's context was reset or destroyed
    { long b = g_boom_live.load(); for (int i = 0; i < 4000 && b != 0; i++) { sched_yield(); b = g_boom_live.load(); }
      if (b != 0) { viol("exception-object-not-destroyed", std::to_string(b) + " exception object(s) thrown by this call's bodies are still alive after the call ended and its handler returned (captured more than once / capture never released; negative: destroyed twice)"); g_boom_live.store(0); } }
    // objects made by the library for this call must all be gone (short grace: destruction precedes the release of the wait)
    long o = c->objs.load(); for (int i = 0; i < 2000 && o != 0; i++) { sched_yield(); o = c->objs.load(); }
    if (o != 0) viol("objects-not-destroyed", std::to_string(o) + " copies of user objects made for this call were not destroyed (negative: destroyed twice)");
    R.scenarios++;
    R.stat("calls." + sc.construct);
    if (nthrown) { R.stat("calls_with_throw"); R.stat("throws." + std::string(site_name[sc.site]), nthrown); }
    if (nthrown >= 2) R.stat("calls_with_concurrent_throws");
    if (nthrown && c->prelude && sc.site == S_BODY) R.stat(std::string("throws_after_context_swap.") + prelude_name[c->prelude]);
    if (nthrown) { R.nontrivial++; R.signature(mix(std::hash<std::string>{}(sc.construct + site_name[sc.site] + sc.params), mix(nthrown, std::min(c->bodies.load(), 40)))); }
    if (nthrown && ok && R.want_sample()) {
        Json j; j.obj(); j.kv("construct", sc.construct); j.kv("throwing_site", site_name[sc.site]); j.kv("params", sc.params); j.kv("exceptions_thrown", nthrown);
        j.kv("caught_id", caught); j.key("thrown_ids").arr(); { std::lock_guard<std::mutex> l(c->m); for (int t : c->thrown) j.val(t); } j.end_arr();
        j.kv("bodies_run", c->bodies.load()); j.kv("bodies_live_at_catch", live_now); j.end_obj(); R.sample(j.s);
    }
    progress();
    return ok;
}
// after some more activity: did a body of an already finished call start late?
static void check_late(Result& R) {
    for (auto& c : g_calls) if (c->late.load()) { R.violation("c03.body-started-after-call-ended", std::to_string(c->late.load()) + " bodies of a call started after that call had returned or thrown", "{}"); c->late.store(0); }
}

static std::vector<long> pick_positions(Rng& r, long span, int n) {
    std::vector<long> v; if (span <= 0) span = 1;
    for (int i = 0; i < n; i++) { unsigned k = (unsigned)r.below(10); long p = k < 3 ? 0 : k < 5 ? span - 1 : (long)r.below(span); v.push_back(p); }
    return v;
}

// ============================================================================================== constructs
static tbb::affinity_partitioner g_ap;
static void c_pfor(Result& R, Rng& r, int site, int nthrows) {
    Call* c = new_call(); int n = 50 + (int)r.below(3000), g = 1 + (int)r.below(40), part = (int)r.below(4); unsigned w = (unsigned)r.below(600);
    long span = site == S_BODY ? std::max(1, n / g) : std::max(2, n / g);
    c->fire[site] = pick_positions(r, span, nthrows);
    Scen sc{ "pfor", site, nthrows, "n=" + std::to_string(n) + ",grain=" + std::to_string(g) + ",part=" + std::to_string(part) };
    attempt(R, c, sc, [&] {
        TRange range(0, n, g, c);
        auto body = [c, w](const TRange& rg) { Live l(c); body_throw(c); work(w * (unsigned)(rg.e - rg.b) / 8 + 10); };
        switch (part) { case 0: tbb::parallel_for(range, body, tbb::simple_partitioner()); break; case 1: tbb::parallel_for(range, body, tbb::auto_partitioner()); break;
                        case 2: tbb::parallel_for(range, body, tbb::static_partitioner()); break; default: tbb::parallel_for(range, body, g_ap); }
    });
}
static void c_reduce(Result& R, Rng& r, int site, int nthrows, bool det, bool fn) {
    Call* c = new_call(); int n = 50 + (int)r.below(2500), g = 1 + (int)r.below(30); unsigned w = (unsigned)r.below(400);
    c->fire[site] = pick_positions(r, std::max(2, n / g / (site == S_JOIN ? 2 : 1)), nthrows);
    Scen sc{ std::string(det ? "dreduce" : "reduce") + (fn ? "_fn" : ""), site, nthrows, "n=" + std::to_string(n) + ",grain=" + std::to_string(g) };
    attempt(R, c, sc, [&] {
        if (fn) {
            auto body = [c, w](const tbb::blocked_range<int>& rg, long acc) { Live l(c); body_throw(c); for (int i = rg.begin(); i < rg.end(); ++i) acc += i; work(w); return acc; };
            auto red = [c](long a, long b) { maybe_throw(c, S_JOIN); return a + b; };
            tbb::blocked_range<int> range(0, n, g);
            long res = det ? tbb::parallel_deterministic_reduce(range, 0L, body, red) : tbb::parallel_reduce(range, 0L, body, red);
            if (res != (long)n * (n - 1) / 2) R.violation("c03." + sc.construct + ".wrong-result", "reduction result wrong without any exception", "{}");
        } else {
            TRange range(0, n, g, c); RBody b(c, w);
            if (det) tbb::parallel_deterministic_reduce(range, b); else tbb::parallel_reduce(range, b);
            if (b.sum != (long)n * (n - 1) / 2) R.violation("c03." + sc.construct + ".wrong-result", "reduction result wrong without any exception", "{}");
        }
    });
}
struct SBody {                                // imperative scan body (counted copies)
    Call* c; long sum = 0; Counted cnt;
    explicit SBody(Call* c_) : c(c_), cnt(c_) {}
    SBody(SBody& o, tbb::split) : c(o.c), cnt(o.cnt) { maybe_throw(c, S_BODY_SPLIT); }
    template <class Tag> void operator()(const tbb::blocked_range<int>& r, Tag) { Live l(c); maybe_throw(c, S_BODY); for (int i = r.begin(); i < r.end(); ++i) sum += i; }
    void reverse_join(SBody& a) { sum = a.sum + sum; }
    void assign(SBody& b) { sum = b.sum; }
};
static void c_scan_body(Result& R, Rng& r, int site, int nthrows) {
    Call* c = new_call(); int n = 50 + (int)r.below(3000), g = 1 + (int)r.below(30);
    c->fire[site] = pick_positions(r, std::max(2, n / g), nthrows);
    Scen sc{ "scan_body", site, nthrows, "n=" + std::to_string(n) };
    attempt(R, c, sc, [&] { SBody b(c); tbb::parallel_scan(tbb::blocked_range<int>(0, n, g), b); });
}
static void c_scan(Result& R, Rng& r, int site, int nthrows) {
    Call* c = new_call(); int n = 50 + (int)r.below(3000), g = 1 + (int)r.below(30);
    c->fire[site] = pick_positions(r, std::max(2, n / g), nthrows);
    Scen sc{ "scan", site, nthrows, "n=" + std::to_string(n) };
    std::vector<long> out(n);
    attempt(R, c, sc, [&] {
        tbb::parallel_scan(tbb::blocked_range<int>(0, n, g), 0L,
            [&, c](const tbb::blocked_range<int>& rg, long s, bool fin) { Live l(c); maybe_throw(c, S_BODY); for (int i = rg.begin(); i < rg.end(); ++i) { s += i; if (fin) out[i] = s; } return s; },
            [c](long a, long b) { maybe_throw(c, S_COMBINE); return a + b; });
    });
}
static void c_foreach(Result& R, Rng& r, int site, int nthrows) {
    Call* c = new_call(); int n = 10 + (int)r.below(300); unsigned w = (unsigned)r.below(500);
    c->fire[site] = pick_positions(r, site == S_FEED ? n / 2 + 1 : n, nthrows);
    Scen sc{ "for_each", site, nthrows, "n=" + std::to_string(n) };
    std::vector<int> items(n); for (int i = 0; i < n; i++) items[i] = i;
    attempt(R, c, sc, [&] {
        tbb::parallel_for_each(items.begin(), items.end(), [c, w](int v, tbb::feeder<int>& f) {
            Live l(c);
            if (v >= 0) { body_throw(c); if (v % 2 == 0) f.add(-v - 1); } else maybe_throw(c, S_FEED);
            work(w);
        });
    });
}
static void c_invoke(Result& R, Rng& r, int site, int nthrows) {
    Call* c = new_call();
    c->fire[site] = pick_positions(r, 40, nthrows);
    Scen sc{ "invoke", site, nthrows, "" };
    attempt(R, c, sc, [&] {
        auto f = [c] { Live l(c); body_throw(c); work(300); };
        auto nested = [c] { Live l(c); body_throw(c); tbb::parallel_for(0, 40, [c](int) { Live l2(c); body_throw(c); work(100); }); };
        tbb::parallel_invoke(f, f, nested, f);
    });
}
static void c_sort(Result& R, Rng& r, int site, int nthrows) {
    Call* c = new_call(); int n = 600 + (int)r.below(4000);
    c->fire[site] = pick_positions(r, n * 8, nthrows);
    Scen sc{ "sort", site, nthrows, "n=" + std::to_string(n) };
    std::vector<int> v(n); for (auto& x : v) x = (int)r.below(1000);
    attempt(R, c, sc, [&] { tbb::parallel_sort(v.begin(), v.end(), [c](int a, int b) { maybe_throw(c, S_CMP); return a < b; }); });
}
static void c_pipeline(Result& R, Rng& r, int site, int nthrows) {
    Call* c = new_call(); int n = 5 + (int)r.below(200); int tokens = 1 + (int)r.below(8); int kinds = (int)r.below(27);
    c->fire[site] = pick_positions(r, n * 3, nthrows);
    auto mode = [](int k) { return k == 0 ? tbb::filter_mode::parallel : k == 1 ? tbb::filter_mode::serial_in_order : tbb::filter_mode::serial_out_of_order; };
    Scen sc{ "pipeline", site, nthrows, "items=" + std::to_string(n) + ",tokens=" + std::to_string(tokens) + ",modes=" + std::to_string(kinds) };
    attempt(R, c, sc, [&] {
        std::atomic<int> src{0};
        tbb::parallel_pipeline(tokens,
            tbb::make_filter<void, int>(mode(kinds % 3), [&, c](tbb::flow_control& fc) -> int { Live l(c); int i = src.fetch_add(1); if (i >= n) { fc.stop(); return 0; } maybe_throw(c, S_FILTER); return i; }) &
            tbb::make_filter<int, int>(mode(kinds / 3 % 3), [c](int v) { Live l(c); maybe_throw(c, S_FILTER); work(200); return v; }) &
            tbb::make_filter<int, void>(mode(kinds / 9 % 3), [c](int) { Live l(c); maybe_throw(c, S_FILTER); }));
    });
}
static void c_group(Result& R, Rng& r, int site, int nthrows) {
    Call* c = new_call(); int n = 2 + (int)r.below(30); bool nested = r.chance(1, 2);
    c->fire[site] = pick_positions(r, nested ? n * 3 : n, nthrows);
    Scen sc{ "task_group", site, nthrows, "tasks=" + std::to_string(n) + (nested ? ",nested" : "") };
    tbb::task_group tg;
    bool ok = attempt(R, c, sc, [&] {
        for (int i = 0; i < n; i++) tg.run([c, nested] {
            Live l(c);
            if (nested) { tbb::task_group inner; for (int j = 0; j < 3; j++) inner.run([c] { Live l2(c); body_throw(c); work(150); }); inner.wait(); }
            else { body_throw(c); work(200); }
        });
        if (r.chance(1, 3)) tg.run_and_wait([c] { Live l(c); work(100); }); else tg.wait();
    });
    // the group must be reusable: a second, throw-free round runs every task
    if (ok) {
        Call* c2 = new_call(); std::atomic<int> ran{0};
        Scen sc2{ "task_group_reuse", site, 0, sc.params };
        attempt(R, c2, sc2, [&] { for (int i = 0; i < n; i++) tg.run([c2, &ran] { Live l(c2); ran++; }); tbb::task_group_status st = tg.wait(); if (st != tbb::complete || ran.load() != n) R.violation("c03.task_group.not-reusable", "after an exception the same task_group ran " + std::to_string(ran.load()) + " of " + std::to_string(n) + " tasks, status " + std::to_string((int)st), "{}"); });
    }
}
static tbb::task_arena* g_small;   // (1,1): the second caller is delegated
static void c_execute(Result& R, Rng& r, int site, int nthrows) {
    Call* c = new_call(); bool delegated = r.chance(1, 2);
    c->fire[site] = { 0 };
    Scen sc{ delegated ? "execute_delegated" : "execute", site, 1, "" };
    if (!delegated) { attempt(R, c, sc, [&] { g_small->execute([c] { Live l(c); maybe_throw(c, S_BODY); }); }); return; }
    std::atomic<int> in{0}; std::atomic<bool> release{false};
    std::thread other([&] { g_small->execute([&] { in = 1; while (!release.load()) sched_yield(); }); });
    struct J { std::thread& t; std::atomic<bool>& rel; ~J() { rel = true; t.join(); } } j{ other, release };
    while (!in.load()) sched_yield();
    std::thread rel([&] { sleep_us(300 + (unsigned)trng().below(1500)); release = true; });
    attempt(R, c, sc, [&] { g_small->execute([c] { Live l(c); maybe_throw(c, S_BODY); }); });
    rel.join();
}
static void c_graph(Result& R, Rng& r, int site, int nthrows) {
    using namespace tbb::flow;
    Call* c = new_call(); int n = 5 + (int)r.below(100); int kind = (int)r.below(4);
    c->fire[site] = pick_positions(r, n, nthrows);
    Scen sc{ "flow_graph", site, nthrows, "msgs=" + std::to_string(n) + ",kind=" + std::to_string(kind) };
    graph g;
    std::atomic<int> sunk{0}; int src_i = 0;
    function_node<int, int> fn(g, kind == 0 ? serial : unlimited, [c, kind](int v) { Live l(c); if (kind <= 1) maybe_throw(c, S_FG); work(150); return v; });
    multifunction_node<int, std::tuple<int>> mf(g, unlimited, [c, kind](const int& v, multifunction_node<int, std::tuple<int>>::output_ports_type& p) { Live l(c); if (kind == 2) maybe_throw(c, S_FG); std::get<0>(p).try_put(v); });
    function_node<int, continue_msg> sink(g, serial, [c, &sunk](int) { Live l(c); sunk++; return continue_msg(); });
    input_node<int> in(g, [&, c](tbb::flow_control& fc) -> int { Live l(c); if (src_i >= n) { fc.stop(); return 0; } if (kind == 3) maybe_throw(c, S_FG); return src_i++; });
    make_edge(fn, mf); make_edge(output_port<0>(mf), sink); make_edge(in, fn);
    bool ok = attempt(R, c, sc, [&] { if (r.chance(1, 2)) in.activate(); else for (int i = 0; i < n; i++) fn.try_put(i); g.wait_for_all(); });
    if (c->thrown_n.load() > 0) {
        if (!g.exception_thrown()) R.violation("c03.flow_graph.exception_thrown-false", "graph::exception_thrown() is false after a body threw", "{}");
        if (!g.is_cancelled()) R.violation("c03.flow_graph.not-cancelled", "graph::is_cancelled() is false after a body threw", "{}");
    }
    if (ok) {   // reusable after reset
        g.reset();
        Call* c2 = new_call(); std::atomic<int> ran{0};
        function_node<int, int> fn2(g, unlimited, [c2, &ran](int v) { Live l(c2); ran++; return v; });
        Scen sc2{ "flow_graph_reuse", site, 0, sc.params };
        attempt(R, c2, sc2, [&] { for (int i = 0; i < 10; i++) fn2.try_put(i); g.wait_for_all(); if (ran.load() != 10) R.violation("c03.flow_graph.not-reusable", "after an exception and reset() the graph ran " + std::to_string(ran.load()) + " of 10 messages", "{}"); });
    }
}

int main(int argc, char** argv) {
    Args a = standard_init(argc, argv, "c03");
    Result& R = result();
    long cases = a.num("cases", 2000);
    bool join_only = R.mode == "join";         // the known join-callback defect wedges the process: own processes
    bool do_perturb = a.num("perturb", 1) != 0;
    std::vector<int> ids = { 1, 3, 8, 10, 40, 41, 43, 95, 92, 200, 201, 203, 204 };
    Rng top(mix(R.seed, 0xC03));
    tbb::global_control gc(tbb::global_control::max_allowed_parallelism, 16);
    tbb::task_arena A(8); A.initialize();
    g_main_arena = &A;
    tbb::task_arena small(1, 1); small.initialize(); g_small = &small;
    Keeper keeper(A, 4, 50);
    watchdog_start(WatchdogCfg{}, [&](const HangInfo& hi) {
        Scen sc; { std::lock_guard<std::mutex> l(g_cur_m); sc = g_cur; }
        std::string d = "no progress for " + std::to_string(hi.stalled_for) + "s in " + sc.construct + " (throwing site " + site_name[sc.site] + ", params " + sc.params + "); threads: " + hi.threads.substr(0, 600);
        if ((!hi.quiescent && !hi.spin_stall) || !g_in_call.load()) { R.inconclusive++; fprintf(stderr, "[c03] inconclusive stall: %s\n", d.c_str()); R.finish_and_exit(4); }
        Json j; j.obj(); j.kv("construct", sc.construct); j.kv("site", site_name[sc.site]); j.kv("params", sc.params); j.end_obj();
        R.violation(std::string("c03.hang.") + (hi.quiescent ? "quiescent." : "spin-stall.") + sc.construct + "." + site_name[sc.site], "the waiting call never returned after the injected throw: " + d, j.s);
        R.finish_and_exit(3);
    });
    for (long k = 0; k < cases; k++) {
        Rng r(top.next());
        if (do_perturb) perturb_random(r, ids);
        int nthrows = r.chance(1, 6) ? 0 : (r.chance(1, 4) ? 2 + (int)r.below(2) : 1);
        A.execute([&] {
            if (join_only) { bool det = r.chance(1, 2), fn = r.chance(1, 2); c_reduce(R, r, S_JOIN, std::max(1, nthrows), det, fn); return; }
            switch (r.below(14)) {
            case 0: c_pfor(R, r, S_BODY, nthrows); break;
            case 1: c_pfor(R, r, r.chance(1, 2) ? S_RANGE_COPY : S_RANGE_SPLIT, nthrows); break;
            case 2: { int s = (int)r.pick(std::vector<int>{ S_BODY, S_BODY_SPLIT, S_RANGE_COPY, S_RANGE_SPLIT }); c_reduce(R, r, s, nthrows, r.chance(1, 2), false); break; }
            case 3: c_reduce(R, r, S_BODY, nthrows, r.chance(1, 2), true); break;
            case 4: if (r.chance(1, 3)) c_scan_body(R, r, r.chance(1, 4) ? S_BODY_SPLIT : S_BODY, nthrows); else c_scan(R, r, r.chance(1, 3) ? S_COMBINE : S_BODY, nthrows); break;
            case 5: c_foreach(R, r, r.chance(1, 3) ? S_FEED : S_BODY, nthrows); break;
            case 6: c_invoke(R, r, S_BODY, nthrows); break;
            case 7: c_sort(R, r, S_CMP, nthrows); break;
            case 8: c_pipeline(R, r, S_FILTER, nthrows); break;
            case 9: case 10: c_group(R, r, S_BODY, nthrows); break;
            case 11: c_graph(R, r, S_FG, nthrows); break;
            default: c_graph(R, r, S_FG, nthrows); break;
            }
        });
        if (!join_only && r.chance(1, 6)) c_execute(R, r, S_BODY, 1);
        check_late(R);
        perturb().clear();
    }
    sleep_us(2000); check_late(R);
    watchdog_stop();
    R.finish_and_exit(0);
}
