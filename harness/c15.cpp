// C15: flow graph buffering, ordering, joining and limiting nodes keep their contracts.
//
// One mini-topology per node contract (classes below), each with serial logging sinks, 1-4 external producer threads per port (some of
// them putting through graph tasks), accepting and rejecting successors, in warm arenas of 2-16 slots under hook-driven delays
// (aggregator batches 170/171, flow-graph points 180-187, task streams). Every message carries a unique id; producers keep
// (call stamp, return stamp, result) per put; the oracles run after wait_for_all on the logs:
//   queue            queue_node: exactly once, per-producer order, A.ret < B.call => A leaves first; several consumers; reserve/release keeps the item
//   seq              sequencer_node: output exactly 0,1,2,..; repeated numbers rejected, every accepted message forwarded
//   prio             priority_queue_node with a blocked / rejecting / late successor: highest buffered item first
//   resv             buffer/queue/priority feeding reserving joins with competitors: exactly once, nothing stuck
//   join-reserving   reserving join over queues: complete tuples only, in = ports x tuples + still buffered
//   join-queueing    tuple i = i-th message of every port; per-producer and real-time order per port
//   join-key         key_matching: equal keys, each message used once, leftovers = unmatched
//   limiter          entries - decrements started <= threshold at every sink entry; early decrements; external decrements; direct puts
//   overwrite / write-once   latest / first value at every present and late successor, try_get agrees
//   broadcast, split, indexer   all successors / element k only at port k / tag k
//   ring             item_buffer through try_put/try_get/try_reserve/try_release/try_consume against an exact model (wrap, grow while reserved)
#define VRT_IMPL
#include "c15_misc.h"
#if VRT_ASAN
#include <sanitizer/lsan_interface.h>
#endif

struct ClassDef { const char* name; int weight; std::function<void(Scn&, tbb::task_arena&)> run; };

static void observer(int id, const void*, long arg) {
    if (id == 186 && arg > 4) { g_grows.fetch_add(1, RLX); atomic_max(g_max_grow, (long long)arg); if (g_resv_outstanding.load(RLX)) g_grows_reserved.fetch_add(1, RLX); }
}

int main(int argc, char** argv) {
    Args a = standard_init(argc, argv, "c15");
    Result& R = result();
    long cases = a.num("cases", 2000);
    g_light = (R.variant == "tsan") || a.has("light");
    g_allow_bufget = a.num("bufget", 1) != 0;
    int fixed_conc = (int)a.num("conc", 0);
    std::string mode = a.str("mode", "default");
    tbb::global_control gc(tbb::global_control::max_allowed_parallelism, 16);
    set_point_observer(observer);
    std::vector<int> ids = { 170, 171, 171, 171, 180, 181, 182, 182, 183, 183, 184, 185, 187, 30, 31, 74, 10 };

    std::vector<ClassDef> defs = {
        { "queue", 10, run_queue }, { "seq", 12, run_seq }, { "prio", 10, run_prio },
        { "resv", 10, [](Scn& s, tbb::task_arena& A) { if (s.seed & 1) run_resv<2>(s, A, false); else run_resv<3>(s, A, false); } },
        { "join-reserving", 6, [](Scn& s, tbb::task_arena& A) { if (s.seed & 1) run_resv<2>(s, A, true); else run_resv<3>(s, A, true); } },
        { "join-queueing", 10, [](Scn& s, tbb::task_arena& A) { switch (s.seed % 3) { case 0: run_join_queueing<2>(s, A); break; case 1: run_join_queueing<3>(s, A); break; default: run_join_queueing<4>(s, A); } } },
        { "join-key", 10, [](Scn& s, tbb::task_arena& A) { if (s.seed & 1) run_join_key<2>(s, A); else run_join_key<3>(s, A); } },
        { "limiter", 12, run_limiter },
        { "limiter_batch", 6, run_limiter_batch },
        { "overwrite", 6, [](Scn& s, tbb::task_arena& A) { run_single_value<fl::overwrite_node<int>>(s, A, false); } },
        { "write-once", 4, [](Scn& s, tbb::task_arena& A) { run_single_value<fl::write_once_node<int>>(s, A, true); } },
        { "broadcast", 5, run_broadcast }, { "split", 3, run_split }, { "indexer", 3, run_indexer },
        { "ring", 11, [](Scn& s, tbb::task_arena& A) { if (s.seed % 11 < 5) run_ring_seq(s, A); else run_ring_conc(s, A); } },
        // classes that only exist to isolate a known defect (never drawn in the default mix)
        { "resvbuf", 0, [](Scn& s, tbb::task_arena& A) { run_resv<2>(s, A, false); } },
        { "ringbuf", 0, [](Scn& s, tbb::task_arena& A) { run_ring_conc(s, A); } },
    };
    std::vector<int> wheel;
    for (size_t i = 0; i < defs.size(); i++) { if (mode == "default" || mode == "all") for (int k = 0; k < defs[i].weight; k++) wheel.push_back((int)i); else if (mode == defs[i].name) wheel.push_back((int)i); }
    if (wheel.empty()) { fprintf(stderr, "c15: unknown --mode %s\n", mode.c_str()); return 2; }

    // warm arenas: two sizes per process (drawn from the seed), alive for the whole process
    Rng top(mix(R.seed, 0xC15));
    std::vector<int> sizes = { 2, 3, 4, 8, 16 };
    if (fixed_conc) warms().push_back(new Warm(fixed_conc));
    else { int i0 = (int)top.below(sizes.size()), i1 = (int)((i0 + 1 + top.below(sizes.size() - 1)) % sizes.size()); warms().push_back(new Warm(sizes[i0])); warms().push_back(new Warm(sizes[i1])); }
    crew();

    std::atomic<Scn*> current{nullptr};
    WatchdogCfg wc;
    watchdog_start(wc, [&](const HangInfo& hi) {
        Scn* s = current.load();
        std::string what = hi.quiescent ? "hang.quiescent" : hi.spin_stall ? "hang.spin-stall" : "";
        std::string d = std::string("no progress for ") + std::to_string(hi.stalled_for) + "s while waiting in: " + g_phase.load() + "; threads: " + hi.threads + "\n" + (g_light ? std::string() : rings_dump());
        // every wait of a scenario is for finitely many puts of running external threads and for non-blocking bodies, so it is always satisfiable
        if (what.empty() || !s) { R.inconclusive++; fprintf(stderr, "[c15] watchdog: inconclusive stall\n%s\n", d.c_str()); R.finish_and_exit(4); }
        R.violation("c15." + s->cls + "." + what, d, s->describe());
        R.finish_and_exit(3);
    });
    // the warmers never sleep for long, so a wedged scenario would never look quiescent: cool them down after 2 s without progress
    std::thread([&] {
        uint64_t last = progress_count(); double t = now_s();
        for (;;) {
            sleep_us(100000);
            uint64_t p = progress_count();
            if (p != last) { last = p; t = now_s(); for (auto* w : warms()) w->cooled.store(false, RLX); continue; }
            if (now_s() - t > 2.0) for (auto* w : warms()) w->cooled.store(true, RLX);
        }
    }).detach();

    std::map<std::string, long> per_class, per_class_nt; std::set<std::string> sampled;
    auto run_one = [&](int ci, uint64_t seed, Warm& W, Rng& r) {
        Scn s; s.cls = defs[ci].name; s.seed = seed; s.conc = W.conc;
        current.store(&s);
        set_crash_context(s.cls + "/seed=" + std::to_string(seed) + "/conc=" + std::to_string(W.conc));
        perturb_random(r, ids);
        defs[ci].run(s, W.arena);
        g_phase.store("idle");
        current.store(nullptr);
        R.scenarios++; per_class[s.cls]++;
        bool nt = s.threads() >= 2 && s.witness.load() > 0;
        if (nt) { R.nontrivial++; per_class_nt[s.cls]++; R.signature(mix(s.sig, std::hash<std::string>{}(s.cls))); }
        if (s.fails) { R.violation(s.key, s.detail + " (" + std::to_string(s.fails) + " failed checks in this scenario; " + s.params + ")", s.describe()); R.write(); }
        else if (nt && !s.sample.empty() && !sampled.count(s.cls) && sampled.size() < 6 && r.chance(1, 3)) { sampled.insert(s.cls); R.sample("{\"case\":" + s.sample + ",\"threads\":" + std::to_string(s.threads()) + ",\"arena\":" + std::to_string(W.conc) + "}"); }
        progress();
    };

    if (a.has("one")) {
        uint64_t sd = strtoull(a.str("one").c_str(), nullptr, 0); long rep = a.num("repeat", 200);
        Warm& W = *warms()[0]; W.on.store(true); Rng r(mix(R.seed, 77));
        for (long k = 0; k < rep; k++) run_one(wheel[0], sd, W, r);
        cases = 0;
    }
    long done = 0;
    while (done < cases) {
        Warm& W = *warms()[top.below(warms().size())];
        for (auto* w : warms()) w->on.store(w == &W, RLX);
        long batch = std::min<long>(cases - done, 40 + (long)top.below(80));
        Rng r(top.next());
        for (long k = 0; k < batch; k++) run_one(wheel[top.below(wheel.size())], top.next(), W, r);
        done += batch;
    }
    perturb().clear();
    for (auto* w : warms()) w->on.store(false, RLX);
    watchdog_stop();
    for (auto& kv : per_class) R.stat("scenarios_" + kv.first, kv.second);
    for (auto& kv : per_class_nt) R.stat("nontrivial_" + kv.first, kv.second);
#define ST_(x) R.stat(#x, ST.x.load())
    ST_(q_released); ST_(q_reserved); ST_(seq_dups_rejected); ST_(seq_accepted); ST_(prio_gated); ST_(prio_pairs_checked); ST_(resv_tuples); ST_(resv_competitor_items);
    ST_(jq_tuples); ST_(jk_tuples); ST_(jk_dup_rejected); ST_(jk_unmatched); ST_(lim_inline_decs); ST_(lim_ext_decs); ST_(lim_at_threshold); ST_(lim_rejected_puts); ST_(lim_delivered); ST_(limb_delivered); ST_(limb_batches); ST_(limb_multi_batches); ST_(limb_at_threshold); ST_(limb_inline_batches);
    ST_(ow_late); ST_(ow_values); ST_(wo_rejected); ST_(bc_msgs); ST_(sp_msgs); ST_(ix_msgs); ST_(ring_ops); ST_(ring_wraps); ST_(ring_get_while_reserved_refused); R.stat("task_puts", g_task_puts.load());
    R.stat("buffer_grows_beyond_initial", g_grows.load()); R.stat("buffer_grows_with_reservation_outstanding", g_grows_reserved.load()); R.stat_max("max_buffer_size", g_max_grow.load());
    R.stat("hook_delays", (long long)perturb().delays.load());
    R.write();
#if VRT_ASAN
    __lsan_do_leak_check();
#endif
    R.finish_and_exit(0);     // warmers and crew threads are still alive: do not run static destructors under them
}
